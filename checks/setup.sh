#!/bin/sh
# Offline setup: make sure hypothesis is importable by /venv/bin/python.
set -e
if ! /venv/bin/python -c 'import hypothesis' 2>/dev/null; then
    PIP_NO_INDEX=1 /venv/bin/pip install --no-index \
        --find-links /opt/veriftools/wheels hypothesis
fi
# atheris (coverage-guided supplement for C04/C09); optional
if [ ! -d .deps/atheris ]; then
    PIP_NO_INDEX=1 /venv/bin/pip install -q --no-index \
        --find-links /opt/veriftools/wheels --target .deps atheris \
        || echo "atheris not installed: the atheris parts will be skipped"
fi
/venv/bin/python -c 'import hypothesis, sys; sys.path.insert(0, "/repo"); import gemato; print("setup ok: hypothesis", hypothesis.__version__)'
