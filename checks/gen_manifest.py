#!/venv/bin/python
# Regenerates /verif/MANIFEST.json from the property modules that exist.
import importlib
import json
import os
import sys

HERE = os.path.dirname(os.path.abspath(__file__))
sys.path.insert(0, os.path.join(HERE, 'lib'))
sys.path.insert(0, HERE)
import harness  # noqa: E402

harness.setup_paths()
VERIF = harness.VERIF

checks = []
na = []
engines = []
with open(os.path.join(VERIF, 'properties.jsonl')) as f:
    props = [json.loads(l) for l in f if l.strip()]
for p in props:
    pid = p['id']
    modpath = os.path.join(HERE, 'props', pid.lower() + '.py')
    if not os.path.exists(modpath):
        na.append({'property_id': pid,
                   'reason': 'check designed (DESIGN.md) but not built yet; '
                             'not claimed'})
        continue
    mod = importlib.import_module('props.' + pid.lower())
    if getattr(mod, 'NOT_CLAIMED', None):
        na.append({'property_id': pid, 'reason': mod.NOT_CLAIMED})
        continue
    checks.append({
        'property_id': pid,
        'quick_cmd': f'/venv/bin/python checks/run.py {pid} --tier quick',
        'thorough_cmd': f'/venv/bin/python checks/run.py {pid} --tier thorough',
        'evidence_file': f'evidence/{pid}.json',
        'replay_cmd_template':
            f'/venv/bin/python checks/run.py {pid} --replay {{path}}',
        'engine': 'pbt-runner',
        'level_claimed': {
            'category': mod.LEVEL,
            'text': mod.LEVEL_TEXT,
            'design_ref': f'DESIGN.md section 3, {pid}',
        },
        'level_note': mod.LEVEL_NOTE,
        'technique': mod.TECHNIQUE,
    })

manifest = {
    'version': 1,
    'setup_cmd': 'sh checks/setup.sh',
    'hooks': {
        'guard': 'MGORNY_GEMATO_VERIF',
        'enable': 'none needed: gemato is pure Python and is imported from '
                  '/repo\'s working tree by every check process; all '
                  'interposition is done from the harness at run time',
        'baseline_off_cmd': 'cd /repo && /venv/bin/python -m pytest -ra -q '
                            '-p no:cacheprovider --timeout=900 '
                            '--continue-on-collection-errors',
        'source_commits': [],
        'add_only': True,
    },
    'engines': [{
        'name': 'pbt-runner',
        'path': 'checks/run.py',
        'serves_properties': [c['property_id'] for c in checks],
        'kind_free_text': 'Hypothesis-driven and bounded-exhaustive case '
                          'generation sharded over 16 processes, explicit '
                          'reference oracles per property, shrinking to a '
                          'JSON replay file',
    }, {
        'name': 'atheris-text-fuzzer',
        'path': 'checks/fuzz_text.py',
        'serves_properties': ['C04', 'C09'],
        'kind_free_text': 'coverage-guided fuzzing (atheris/libFuzzer) of the '
                          'Manifest text loader with the C09 reference '
                          'grammar / C04 framework invariants as in-target '
                          'oracle; run as the "atheris" part of those checks '
                          '(skipped and counted if atheris is not installed)',
    }],
    'checks': checks,
    'not_applicable': na,
    'notes': 'Unguarded fix: commits in /repo are listed in '
             'known_findings.json (status fixed). VERIF_SEED selects the '
             'Hypothesis seed; enumerated parts do not depend on it.',
}
with open(os.path.join(VERIF, 'MANIFEST.json'), 'w') as f:
    json.dump(manifest, f, indent=1)
print(f'{len(checks)} checks, {len(na)} not applicable')
