#!/venv/bin/python
# Entry point: python3 checks/run.py <ID> --tier quick|thorough [--replay f]
import os
import sys

sys.dont_write_bytecode = True
HERE = os.path.dirname(os.path.abspath(__file__))
sys.path.insert(0, os.path.join(HERE, 'lib'))
sys.path.insert(0, HERE)

import harness  # noqa: E402

if __name__ == '__main__':
    sys.exit(harness.main(sys.argv[1:]))
