#!/venv/bin/python
# Coverage-guided fuzz target (atheris / libFuzzer) for the Manifest text
# parser, with the semantic oracles of C09 (reference grammar, totality) or
# C04 (signed-message framework safety invariants) inside the target.
# Usage: fuzz_text.py <c09|c04> <crash-dir> [libFuzzer args ...]
import os
import sys

HERE = os.path.dirname(os.path.abspath(__file__))
sys.path.insert(0, os.path.join(os.path.dirname(HERE), '.deps'))
sys.path.insert(0, os.path.join(HERE, 'lib'))
sys.path.insert(0, HERE)
sys.dont_write_bytecode = True

import atheris  # noqa: E402
import harness  # noqa: E402

harness.setup_paths()
with atheris.instrument_imports(include=['gemato']):
    import gemato.manifest  # noqa: F401

import io  # noqa: E402
from props import c09, c04  # noqa: E402

mode = sys.argv[1]
crashdir = sys.argv[2]
count = [0, 0]


class OracleFailure(Exception):
    pass


def target(data):
    try:
        text = data.decode('utf8')
    except UnicodeDecodeError:
        return
    count[0] += 1
    if count[0] % 5000 == 0:
        with open(os.path.join(crashdir, 'counts'), 'w') as f:
            f.write(f'{count[0]} {count[1]}')
    if mode == 'c09':
        res = c09.check_text(text)
    else:
        res = c04.check_framework_text(text)
    if res.nontrivial:
        count[1] += 1
    if res.status == 'violation':
        with open(os.path.join(crashdir, 'violation.txt'), 'w') as f:
            f.write(res.sig + '\n' + res.detail)
        with open(os.path.join(crashdir, 'violation.input'), 'wb') as f:
            f.write(data)
        with open(os.path.join(crashdir, 'counts'), 'w') as f:
            f.write(f'{count[0]} {count[1]}')
        raise OracleFailure(res.sig)


if __name__ == '__main__':
    import atexit
    argv = [sys.argv[0]] + sys.argv[3:]
    atheris.Setup(argv, target)
    try:
        atheris.Fuzz()
    finally:
        pass
