# Thin wrappers that run gemato operations and classify what happened.

import contextlib
import io
import logging
import os

import buckets

import gemato.cli
from gemato.exceptions import (
    GematoException, ManifestMismatch, ManifestIncompatibleEntry,
    ManifestCrossDevice, ManifestSymlinkLoop)
from gemato.recursiveloader import ManifestRecursiveLoader


class Outcome:
    def __init__(self, kind, value=None, exc=None, path=None):
        self.kind = kind      # return | mismatch | incompatible | loop |
        #                       xdev | gemato | oserror | other
        self.value = value
        self.exc = exc
        self.path = path
        self.escaped = False    # CLI: the exception left main()

    def __repr__(self):
        if self.kind == 'return':
            return f'returned {self.value!r}'
        return f'{self.kind}: {type(self.exc).__name__}: {self.exc}'

    def describe(self):
        if self.exc is not None and self.kind in ('other', 'oserror'):
            return buckets.describe(self.exc)
        return repr(self)


def classify_exception(e):
    if isinstance(e, ManifestMismatch):
        return Outcome('mismatch', exc=e, path=e.path)
    if isinstance(e, ManifestIncompatibleEntry):
        return Outcome('incompatible', exc=e)
    if isinstance(e, ManifestSymlinkLoop):
        return Outcome('loop', exc=e)
    if isinstance(e, ManifestCrossDevice):
        return Outcome('xdev', exc=e)
    if isinstance(e, GematoException):
        return Outcome('gemato', exc=e)
    if isinstance(e, OSError) and e.errno is not None:
        return Outcome('oserror', exc=e)
    return Outcome('other', exc=e)


def call(fn, *args, **kwargs):
    try:
        return Outcome('return', value=fn(*args, **kwargs))
    except Exception as e:
        return classify_exception(e)


def loader(root, top='Manifest', **kwargs):
    return ManifestRecursiveLoader(os.path.join(root, top), **kwargs)


def verify_lib(root, subpath='', top='Manifest', loader_kwargs=None,
               **kwargs):
    def run():
        m = loader(root, top, **(loader_kwargs or {}))
        return m.assert_directory_verifies(subpath, **kwargs)
    return call(run)


class LogCapture(logging.Handler):
    def __init__(self):
        super().__init__(level=logging.DEBUG)
        self.records = []

    def emit(self, record):
        self.records.append(record)


@contextlib.contextmanager
def captured_logs():
    h = LogCapture()
    lg = logging.getLogger()
    old_level = lg.level
    old_handlers = lg.handlers[:]
    for oh in old_handlers:
        lg.removeHandler(oh)
    lg.addHandler(h)
    lg.setLevel(logging.INFO)
    try:
        yield h
    finally:
        lg.removeHandler(h)
        for oh in old_handlers:
            lg.addHandler(oh)
        lg.setLevel(old_level)


def cli(argv, cwd=None):
    """Run gemato.cli.main in-process.  Returns (Outcome, records, stdout)."""
    out = io.StringIO()
    err = io.StringIO()
    old = os.getcwd() if cwd else None
    with captured_logs() as h:
        try:
            if cwd:
                os.chdir(cwd)
            with contextlib.redirect_stdout(out), \
                    contextlib.redirect_stderr(err):
                try:
                    rc = gemato.cli.main(['gemato'] + list(argv))
                    oc = Outcome('return', value=rc)
                except SystemExit as e:
                    oc = Outcome('exit', value=e.code, exc=e)
                except Exception as e:
                    oc = classify_exception(e)
                    oc.escaped = True
        finally:
            if old:
                os.chdir(old)
    # main() turns library exceptions into "log + exit status 1"
    if oc.kind == 'return' and oc.value == 1:
        raised = [r.msg for r in h.records
                  if isinstance(r.msg, GematoException)
                  and not isinstance(r.msg, ManifestMismatch)]
        if raised:
            oc = classify_exception(raised[-1])
            oc.value = 1
    return oc, h.records, out.getvalue()


def error_records(records):
    return [r for r in records if r.levelno >= logging.ERROR]


def mismatch_paths(records):
    """Paths of ManifestMismatch objects that were logged."""
    out = []
    for r in records:
        if isinstance(r.msg, ManifestMismatch):
            out.append(r.msg.path)
    return out


def spell(root, sub, spelling):
    """Command-line spelling of directory @sub of the tree at @root.
    Returns (argument, cwd or None)."""
    full = os.path.join(root, sub) if sub else root
    if spelling == 'abs-slash':
        return full + '/', None
    if spelling in ('rel', 'rel-slash') and sub.startswith('-'):
        spelling = 'rel-dot'        # else argparse takes it for an option
    if spelling == 'rel':
        return (sub or '.'), root
    if spelling == 'rel-dot':
        return './' + sub if sub else './', root
    if spelling == 'rel-slash':
        return (sub + '/') if sub else './/', root
    if spelling == 'from-inside':
        return '.', full
    return full, None


def throw(e):
    raise e


def junk_manifest_above(root, subs):
    import refmanifest as R
    for sub in subs:
        parts = sub.split('/') if sub else []
        for i in range(1, len(parts) + 1):
            p = os.path.join(root, *parts[:i], 'Manifest')
            if os.path.isfile(p):
                try:
                    R.parse_strict(R.read_manifest_file(p))
                except Exception:
                    return True
    return False
