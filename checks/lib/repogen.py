# ebuild-repository-shaped trees (C19, C20, C18).

import os

from hypothesis import strategies as st

# (some names are character prefixes of others: foo / foo-bin, a / ab)
CATS = ['app-misc', 'dev-libs', 'sys-apps', 'x11-wm', 'virtual', 'dev-lib',
        'x11']
PKGS = ['foo', 'bar', 'libbaz', 'qux-ng', 'a', 'foo-bin', 'ab', 'qux']
FILE_NAMES = ['patch-1.patch', 'init.d', 'conf', 'README']
MD_SUBDIRS = ['dtd', 'glsa', 'news', 'xml-schema', 'md5-cache',
              'install-qa-check.d']
IGNORED_TOP = ['distfiles', 'local', 'lost+found', 'packages']

# "@@big:N" stands for N bytes (files longer than the generators' read
# buffers) without bloating the case descriptor
content = st.one_of(
    st.text(alphabet='abcdefgh \n#=', min_size=0, max_size=40),
    st.text(alphabet='abcdefgh \n#=', min_size=0, max_size=40),
    st.text(alphabet='abcdefgh \n#=', min_size=0, max_size=40),
    st.text(alphabet='abcdefgh \n#=', min_size=0, max_size=40),
    st.text(alphabet='abcdefgh \n#=', min_size=0, max_size=40),
    st.text(alphabet='abcdefgh \n#=', min_size=0, max_size=40),
    st.text(alphabet='abcdefgh \n#=', min_size=0, max_size=40),
    st.sampled_from(['@@big:65536', '@@big:65537', '@@big:131073',
                     '@@big:70000']))


def expand(c):
    i = c.find('@@big:')
    if i < 0:
        return c
    n = int(c[i + 6:].rstrip('!'))
    return c[:i] + 'x' * n


@st.composite
def repo(draw, portable=False, full_skeleton=False, ignored_dirs=True,
         timestamps=True, max_cats=4, max_pkgs=4):
    """Returns {'files': {path: content}, 'dirs': [empty dirs]}."""
    files = {}
    dirs = []
    ncat = min(max_cats, draw(st.sampled_from(
        [1, 1, 2, 2, 3, 4] if full_skeleton else [0, 1, 1, 2, 2, 3, 4])))
    cats = draw(st.lists(st.sampled_from(CATS), min_size=ncat, max_size=ncat,
                         unique=True))
    listed = list(cats)
    if draw(st.integers(0, 4)) == 0 and not full_skeleton:
        listed = listed[:-1] if listed else listed
    if full_skeleton or draw(st.integers(0, 5)) != 0:
        files['profiles/categories'] = ''.join(c + '\n' for c in listed)
    for c in cats:
        if draw(st.integers(0, 2)) != 0:
            files[f'{c}/metadata.xml'] = '<catmetadata/>' + draw(content)
        npkg = draw(st.integers(0, max_pkgs))
        pkgs = draw(st.lists(st.sampled_from(PKGS), min_size=npkg,
                             max_size=npkg, unique=True))
        if not pkgs and f'{c}/metadata.xml' not in files:
            dirs.append(c)
        for p in pkgs:
            base = f'{c}/{p}'
            neb = draw(st.sampled_from([0, 1, 1, 2, 3]
                                       if not full_skeleton
                                       else [0, 1, 1, 1, 2, 3]))
            for v in range(neb):
                files[f'{base}/{p}-{v}.{draw(st.integers(0, 9))}.ebuild'] = \
                    'EAPI=7\n' + draw(content)
            if draw(st.integers(0, 3)) != 0 or (full_skeleton and neb == 0):
                files[f'{base}/metadata.xml'] = '<pkgmetadata/>' \
                    + draw(content)
            is_pkg = neb > 0 or f'{base}/metadata.xml' in files
            if is_pkg and draw(st.integers(0, 1)):
                for _ in range(draw(st.integers(1, 3))):
                    sub = draw(st.sampled_from(['', '', 'sub/', 'sub/deep/']))
                    files[f'{base}/files/{sub}'
                          f'{draw(st.sampled_from(FILE_NAMES))}'] = \
                        draw(content)
            if neb == 0 and f'{base}/metadata.xml' not in files and not any(
                    k.startswith(base + '/') for k in files):
                dirs.append(base)
    # profiles
    if full_skeleton or draw(st.integers(0, 3)) != 0:
        files.setdefault('profiles/repo_name', 'test\n')
        for _ in range(draw(st.integers(0, 3))):
            files['profiles/' + draw(st.sampled_from(
                ['arch/amd64/make.defaults', 'arch/amd64/parent',
                 'desc/foo.desc', 'updates/1Q-2020', 'arch.list',
                 'default/linux/amd64/17.1/eapi']))] = draw(content)
    # eclass
    if full_skeleton or draw(st.integers(0, 3)) != 0:
        files['eclass/foo.eclass'] = draw(content)
        if draw(st.booleans()):
            files['eclass/tests/foo.sh'] = draw(content)
    # licenses
    if full_skeleton or draw(st.integers(0, 3)) != 0:
        files['licenses/GPL-2'] = draw(content)
        if draw(st.booleans()):
            files['licenses/MIT'] = draw(content)
    # metadata
    if full_skeleton or draw(st.integers(0, 4)) != 0:
        files['metadata/layout.conf'] = 'masters =\n'
        subs = draw(st.lists(st.sampled_from(MD_SUBDIRS), unique=True,
                             min_size=1, max_size=6))
        if full_skeleton:
            subs = sorted(set(subs) | {'dtd', 'glsa', 'news', 'xml-schema',
                                       'md5-cache'})
        for s in subs:
            if s == 'news':
                n = draw(st.integers(0 if not full_skeleton else 1, 2))
                for i in range(n):
                    item = f'2020-0{i + 1}-01-item'
                    files[f'metadata/news/{item}/{item}.en.txt'] = \
                        draw(content)
                if n == 0:
                    dirs.append('metadata/news')
            elif s == 'md5-cache':
                n = 0
                for c in cats:
                    if draw(st.booleans()):
                        n += 1
                        files[f'metadata/md5-cache/{c}/'
                              f'{draw(st.sampled_from(PKGS))}-1'] = \
                            draw(content)
                # a category that is still listed (and cached) but has no
                # directory any more
                gone = [c for c in CATS if c not in cats]
                if gone and 'profiles/categories' in files \
                        and draw(st.integers(0, 3)) == 0:
                    g = draw(st.sampled_from(gone))
                    files['profiles/categories'] += g + '\n'
                    files[f'metadata/md5-cache/{g}/old-1'] = draw(content)
                    n += 1
                if n == 0:
                    dirs.append('metadata/md5-cache')
            elif s == 'glsa':
                files['metadata/glsa/glsa-202001-01.xml'] = draw(content)
            elif s == 'dtd':
                files['metadata/dtd/metadata.dtd'] = draw(content)
            elif s == 'xml-schema':
                files['metadata/xml-schema/metadata.xsd'] = draw(content)
            else:
                files[f'metadata/{s}/60check'] = draw(content)
        if timestamps:
            for t in draw(st.lists(st.sampled_from(
                    ['metadata/timestamp', 'metadata/timestamp.chk',
                     'metadata/timestamp.commit', 'metadata/timestamp.x',
                     'metadata/dtd/timestamp.chk',
                     'metadata/glsa/timestamp.commit',
                     'metadata/news/timestamp.chk',
                     'metadata/xml-schema/timestamp.commit']),
                    unique=True, max_size=3)):
                if os.path.dirname(t) == 'metadata' or any(
                        k.startswith(os.path.dirname(t) + '/')
                        for k in files):
                    files[t] = 'Sat, 01 Jan 2020 00:00:00 +0000\n'
    if ignored_dirs:
        for d in draw(st.lists(st.sampled_from(IGNORED_TOP), unique=True,
                               max_size=2)):
            files[f'{d}/some-file.tar.gz'] = draw(content)
    # hidden names: skipped by every tool
    for hp in draw(st.lists(st.sampled_from(
            ['.gitignore', '.git/HEAD', 'eclass/.hidden',
             'profiles/.editorconfig']), unique=True, max_size=2)):
        files[hp] = 'hidden\n'
    for c in cats[:1]:
        if draw(st.integers(0, 3)) == 0:
            files[f'{c}/.category-dot'] = 'x'
    for f in draw(st.lists(st.sampled_from(['skel.ebuild', 'header.txt',
                                            'skel.metadata.xml']),
                           unique=True, max_size=2)):
        files[f] = draw(content)
    return {'files': files, 'dirs': sorted(set(dirs))}


def materialize(r, root):
    for d in r['dirs']:
        os.makedirs(os.path.join(root, d), exist_ok=True)
    for p, c in r['files'].items():
        full = os.path.join(root, p)
        os.makedirs(os.path.dirname(full), exist_ok=True)
        with open(full, 'w') as f:
            f.write(expand(c))


@st.composite
def repo_edits(draw, r, max_ops=4):
    """Edits of a repository: change/add/delete files, new package, new
    category."""
    paths = sorted(p for p in r['files']
                   if not p.split('/')[0] in IGNORED_TOP
                   and 'timestamp' not in p)
    cats = sorted({p.split('/')[0] for p in r['files']
                   if p.split('/')[0] in CATS})
    ops = []
    for _ in range(draw(st.integers(0, max_ops))):
        k = draw(st.sampled_from(['change', 'change', 'add', 'delete',
                                  'new-pkg', 'new-cat']))
        if k == 'change' and paths:
            ops.append({'op': 'write', 'p': draw(st.sampled_from(paths)),
                        'c': draw(content) + '!'})
        elif k == 'add' and paths:
            d = os.path.dirname(draw(st.sampled_from(paths)))
            p = (d + '/' if d else '') + draw(st.sampled_from(
                ['new-file', 'added.patch', 'extra-1.0.ebuild']))
            if d.count('/') == 1 or not p.endswith('.ebuild'):
                if p not in r['files']:
                    ops.append({'op': 'write', 'p': p, 'c': draw(content)})
        elif k == 'delete' and paths:
            p = draw(st.sampled_from(paths))
            if p != 'profiles/categories':
                ops.append({'op': 'delete', 'p': p})
        elif k == 'new-pkg' and cats:
            c = draw(st.sampled_from(cats))
            ops.append({'op': 'write', 'p': f'{c}/newpkg/newpkg-1.ebuild',
                        'c': 'EAPI=8\n'})
            if draw(st.booleans()):
                ops.append({'op': 'write', 'p': f'{c}/newpkg/files/fix.patch',
                            'c': 'patch\n'})
        elif k == 'new-cat':
            ops.append({'op': 'write', 'p': 'net-new/pkg/pkg-2.ebuild',
                        'c': 'EAPI=8\n'})
            ops.append({'op': 'write', 'p': 'net-new/metadata.xml',
                        'c': '<catmetadata/>'})
    return ops


def apply_edits(root, ops):
    for op in ops:
        full = os.path.join(root, op['p'])
        if op['op'] == 'write':
            os.makedirs(os.path.dirname(full), exist_ok=True)
            with open(full, 'w') as f:
                f.write(expand(op['c']))
        elif op['op'] == 'delete':
            if os.path.exists(full):
                os.unlink(full)
