# Child process of C08's "locale" part: started with a non-UTF-8 locale
# (LC_ALL=C, UTF-8 mode and locale coercion off).  Reads one job as JSON on
# stdin, writes and re-reads Manifests through gemato's tree loader and
# reports what came back (ASCII-only JSON on stdout).

import datetime
import json
import locale
import os
import sys


def main():
    job = json.loads(sys.stdin.buffer.read().decode('ascii'))
    sys.path.insert(0, job['repo'])
    from gemato.manifest import (ManifestEntryIGNORE, ManifestEntryTIMESTAMP,
                                 new_manifest_entry)
    from gemato.recursiveloader import ManifestRecursiveLoader

    def build(d):
        if d['tag'] == 'TIMESTAMP':
            return ManifestEntryTIMESTAMP(
                datetime.datetime(1, 1, 1)
                + datetime.timedelta(seconds=d['secs']))
        if d['tag'] == 'IGNORE':
            return ManifestEntryIGNORE(d['path'])
        return new_manifest_entry(d['tag'], d['path'], d['size'],
                                  dict(d['cks']))

    def key(e):
        if e.tag == 'TIMESTAMP':
            return ['TIMESTAMP', e.ts.isoformat()]
        if e.tag == 'IGNORE':
            return ['IGNORE', e.path]
        return [e.tag, e.path, e.size, sorted(e.checksums.items())]

    out = {'encoding': locale.getpreferredencoding(False), 'results': []}
    for fmt in job['fmts']:
        name = 'Manifest' + ('.' + fmt if fmt else '')
        d = os.path.join(job['dir'], fmt or 'plain')
        os.mkdir(d)
        res = {'fmt': fmt}
        try:
            entries = [build(x) for x in job['entries']]
            res['want'] = [key(e) for e in entries]
            m = ManifestRecursiveLoader(os.path.join(d, name),
                                        allow_create=True)
            m.loaded_manifests[name].entries = entries
            m.save_manifest(name)
            with open(os.path.join(d, name), 'rb') as f:
                res['raw'] = f.read().hex()
            m2 = ManifestRecursiveLoader(os.path.join(d, name))
            res['back'] = [key(e) for e in m2.loaded_manifests[name].entries]
        except Exception as e:
            res['error'] = '%s: %s' % (type(e).__name__, ascii(str(e)))
        out['results'].append(res)
    sys.stdout.buffer.write(json.dumps(out).encode('ascii'))


main()
