# Independent disk scan: do the Manifest files on disk describe the directory
# exactly?  (C03's oracle; reused by C11, C12, C13, C19, C20.)

import os
import stat

import refmanifest as R
import refverify
from refverify import comp_prefix, dirname, join

FILE_TAGS = ('DATA', 'MISC', 'EBUILD', 'AUX', 'MANIFEST')


class Scan:
    def __init__(self):
        self.problems = []      # (kind, path, text)
        self.manifests = {}     # path -> [Entry]
        self.parents = {}       # manifest path -> [(parent manifest, Entry)]
        self.entries = {}       # full path -> [(manifest, Entry)]
        self.ignores = []
        self.files = []         # regular files met by the walk (full paths)
        self.unreachable = []
        self.untouched_stale = []

    def add(self, kind, path, text):
        self.problems.append((kind, path, text))


def load_all(root, top='Manifest'):
    """Parse the top-level Manifest and everything reachable through
    MANIFEST entries.  No chain verification here."""
    s = Scan()
    try:
        s.manifests[top] = R.parse_strict(
            R.read_manifest_file(os.path.join(root, top)))
    except Exception as e:
        s.add('unparsable', top, repr(e))
        return s
    queue = [top]
    while queue:
        mp = queue.pop()
        mdir = dirname(mp)
        for e in s.manifests[mp]:
            if e.tag == 'TIMESTAMP' or e.tag == 'DIST':
                continue
            if e.tag == 'IGNORE':
                s.ignores.append(
                    os.path.normpath(join(mdir, e.path)).rstrip('/'))
                continue
            # (paths are taken literally, as gemato does: './f' is not 'f')
            full = join(mdir, e.path)
            s.entries.setdefault(full, []).append((mp, e))
            if e.tag != 'MANIFEST':
                continue
            s.parents.setdefault(full, []).append((mp, e))
            if full in s.manifests:
                continue
            try:
                s.manifests[full] = R.parse_strict(
                    R.read_manifest_file(os.path.join(root, full)))
            except FileNotFoundError:
                continue
            except Exception as ex:
                s.add('unparsable', full, repr(ex))
                continue
            queue.append(full)
    return s


def scan(root, top='Manifest', subdir='', hashes=None, strict_hashes=True,
         rewritten=None):
    """Check that the Manifests reachable from root/top describe the
    directory @subdir exactly.  Returns a Scan with .problems."""
    s = load_all(root, top)
    if s.problems:
        return s
    H = set(hashes) if hashes is not None else None

    def ignored(p):
        return any(comp_prefix(i, p) for i in s.ignores)

    # 2. references to Manifests in use
    for mpath, refs in s.parents.items():
        mdir = dirname(mpath)
        relevant = (comp_prefix(subdir, mdir) or comp_prefix(mdir, subdir))
        if not relevant:
            continue
        for parent, e in refs:
            if not comp_prefix(dirname(parent), mdir):
                s.add('manifest-ref-from-non-ancestor', mpath,
                      f'referenced from {parent}')
            kind, why = refverify.check_file(os.path.join(root, mpath),
                                             e.size, e.checksums)
            if kind != 'ok':
                if (rewritten is not None and subdir
                        and not comp_prefix(subdir, mdir)
                        and mpath not in rewritten):
                    # a reference *above* the updated sub-directory that
                    # this update did not touch: stale before, not blessed
                    s.untouched_stale.append(mpath)
                    continue
                s.add('stale-manifest-ref', mpath,
                      f'entry in {parent}: {kind}: {why}')

    # 3. walk
    def walk(dpath, ancestors):
        sysd = os.path.join(root, dpath) if dpath else root
        st = os.stat(sysd)
        ident = (st.st_dev, st.st_ino)
        if ident in ancestors:
            return
        for name in sorted(os.listdir(sysd)):
            if name.startswith('.'):
                continue
            full = join(dpath, name)
            if ignored(full):
                continue
            sysp = os.path.join(root, full)
            try:
                mode = os.stat(sysp).st_mode
            except OSError:
                continue
            if stat.S_ISDIR(mode):
                if full in s.entries:
                    s.add('entry-for-directory', full, '')
                    continue
                walk(full, ancestors | {ident})
            elif stat.S_ISREG(mode):
                if full == top:
                    continue
                s.files.append(full)

    walk(subdir, frozenset())
    for full in s.files:
        ents = s.entries.get(full, [])
        if len(ents) == 0:
            s.add('uncovered-file', full, 'no entry in any reachable '
                  'Manifest')
            continue
        if len(ents) > 1:
            s.add('multiply-covered-file', full,
                  f'{len(ents)} entries: '
                  f'{[(m, e.tag) for m, e in ents]!r}')
        for mp, e in ents:
            kind, why = refverify.check_file(os.path.join(root, full),
                                             e.size, e.checksums)
            if kind != 'ok':
                s.add('stale-entry', full, f'entry in {mp}: {kind}: {why}')
            elif (H is not None and strict_hashes and e.tag != 'MANIFEST'
                  and set(e.checksums) != H):
                s.add('wrong-hash-set', full,
                      f'entry in {mp} has {sorted(e.checksums)}, requested '
                      f'{sorted(H)}')
    # 4. entries for vanished files inside subdir
    for full, ents in s.entries.items():
        if not comp_prefix(subdir, full) or ignored(full):
            continue
        if not os.path.lexists(os.path.join(root, full)):
            s.add('entry-for-missing-file', full,
                  f'in {[m for m, e in ents]!r}')
    return s
