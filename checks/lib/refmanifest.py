# Independent reference reader/writer for GLEP 74 Manifest text.
# Shares no code with gemato.manifest.  The reader is three-valued:
# MUST_ACCEPT (with the exact expected entries), MUST_REJECT, DONT_CARE.

import bz2
import datetime
import gzip
import hashlib
import lzma
import re

ACCEPT = 'accept'
REJECT = 'reject'
DONTCARE = 'dontcare'

FILE_TAGS = ('MANIFEST', 'DATA', 'DIST', 'EBUILD', 'MISC', 'AUX')
PATH_TAGS = FILE_TAGS + ('IGNORE',)
ALL_TAGS = PATH_TAGS + ('TIMESTAMP',)

HEX = '0123456789abcdefABCDEF'


def needs_escape(ch):
    cp = ord(ch)
    return (ch == '\\' or cp <= 0x20 or 0x7F <= cp <= 0x9F or ch.isspace())


def escape_path(path):
    out = []
    for ch in path:
        if needs_escape(ch):
            cp = ord(ch)
            if cp <= 0x7F:
                out.append('\\x%02X' % cp)
            elif cp <= 0xFFFF:
                out.append('\\u%04X' % cp)
            else:
                out.append('\\U%08X' % cp)
        else:
            out.append(ch)
    return ''.join(out)


class Entry:
    """tag, path (full semantic path, AUX includes files/), size, checksums,
    ts (TIMESTAMP only).  `raw` is the path token as written for AUX."""
    __slots__ = ('tag', 'path', 'size', 'checksums', 'ts', 'ck_reversed')

    def __init__(self, tag, path=None, size=None, checksums=None, ts=None):
        self.tag = tag
        self.path = path
        self.size = size
        self.checksums = checksums
        self.ts = ts
        self.ck_reversed = False

    def key(self):
        return (self.tag, self.path, self.size,
                tuple(sorted(self.checksums.items()))
                if self.checksums is not None else None,
                self.ts.isoformat() if self.ts is not None else None)

    def __repr__(self):
        return f'Entry{self.key()!r}'

    def to_line(self):
        if self.tag == 'TIMESTAMP':
            return 'TIMESTAMP %04d-%02d-%02dT%02d:%02d:%02dZ' % (
                self.ts.year, self.ts.month, self.ts.day, self.ts.hour,
                self.ts.minute, self.ts.second)
        p = self.path
        if self.tag == 'AUX':
            assert p.startswith('files/')
            p = p[6:]
        if self.tag == 'IGNORE':
            return f'IGNORE {escape_path(p)}'
        toks = [self.tag, escape_path(p), str(self.size)]
        keys = sorted(self.checksums)
        if getattr(self, 'ck_reversed', False):
            keys.reverse()      # (a correct line, just not in name order)
        for k in keys:
            toks += [k, self.checksums[k]]
        return ' '.join(toks)


def dump_entries(entries):
    return ''.join(e.to_line() + '\n' for e in entries)


# ---- reading -------------------------------------------------------------

def decode_path_token(tok):
    """Returns (verdict, path).  verdict REJECT: invalid; DONTCARE:
    surrogate escape or raw control characters; ACCEPT otherwise."""
    out = []
    verdict = ACCEPT
    i = 0
    n = len(tok)
    while i < n:
        ch = tok[i]
        if ch != '\\':
            cp = ord(ch)
            if cp < 0x20 or 0x7F <= cp <= 0x9F:
                verdict = DONTCARE     # raw control char left unescaped
            out.append(ch)
            i += 1
            continue
        if i + 1 >= n:
            return REJECT, None
        kind = tok[i + 1]
        width = {'x': 2, 'u': 4, 'U': 8}.get(kind)
        if width is None:
            return REJECT, None
        digits = tok[i + 2:i + 2 + width]
        if len(digits) != width or any(d not in HEX for d in digits):
            return REJECT, None
        val = int(digits, 16)
        if val > 0x10FFFF:
            return REJECT, None
        if 0xD800 <= val <= 0xDFFF:
            verdict = DONTCARE
        out.append(chr(val))
        i += 2 + width
    return verdict, ''.join(out)


_ascii_digits = re.compile(r'\A[0-9]+\Z')


def classify_size(tok):
    """Returns (verdict, value)."""
    if _ascii_digits.match(tok):
        return ACCEPT, int(tok)
    try:
        v = int(tok)
    except ValueError:
        return REJECT, None
    if v < 0:
        return REJECT, None
    return DONTCARE, v


_ts_canon = re.compile(
    r'\A([0-9]{4})-([0-9]{2})-([0-9]{2})T([0-9]{2}):([0-9]{2}):([0-9]{2})Z\Z')
# loosely padded fields, and lower-case t/z (strptime matches literals
# case-insensitively): accepted by some parsers, DONT-CARE
_ts_loose = re.compile(
    r'\A(\d{1,4})-(\d{1,2})-(\d{1,2})[Tt](\d{1,2}):(\d{1,2}):(\d{1,2})[Zz]\Z')


def classify_timestamp(tok):
    m = _ts_canon.match(tok)
    if m:
        try:
            y, mo, d, h, mi, s = (int(x) for x in m.groups())
            if y == 0:
                return REJECT, None
            if s in (60, 61) and mi <= 59 and h <= 23:
                # leap-second notation: accepted by some parsers
                try:
                    datetime.datetime(y, mo, d, h, mi, 59)
                except ValueError:
                    return REJECT, None
                return DONTCARE, None
            return ACCEPT, datetime.datetime(y, mo, d, h, mi, s)
        except ValueError:
            return REJECT, None
    m = _ts_loose.match(tok)
    if m:
        try:
            y, mo, d, h, mi, s = (int(x) for x in m.groups())
            if s in (60, 61):
                s = 59
            datetime.datetime(y, mo, d, h, mi, s)
        except ValueError:
            return REJECT, None
        return DONTCARE, None
    return REJECT, None


def worst(a, b):
    if REJECT in (a, b):
        return REJECT
    if DONTCARE in (a, b):
        return DONTCARE
    return ACCEPT


def classify_tokens(toks):
    """Classify one non-blank line given as its whitespace-separated tokens.
    Returns (verdict, Entry or None, reason)."""
    tag = toks[0]
    if tag not in ALL_TAGS:
        return REJECT, None, 'unknown-tag'
    if tag == 'TIMESTAMP':
        if len(toks) != 2:
            return REJECT, None, 'field-count'
        v, ts = classify_timestamp(toks[1])
        return (v, (Entry('TIMESTAMP', ts=ts) if v == ACCEPT else None),
                'timestamp')
    if tag == 'IGNORE':
        if len(toks) != 2:
            return REJECT, None, 'field-count'
    else:
        if len(toks) < 3:
            return REJECT, None, 'field-count'
        if (len(toks) - 3) % 2 != 0:
            return REJECT, None, 'checksum-without-value'
    verdict, path = decode_path_token(toks[1])
    if verdict == REJECT:
        return REJECT, None, 'bad-escape'
    if path == '':
        return REJECT, None, 'empty-path'
    if path.startswith('/'):
        return REJECT, None, ('absolute-path' if toks[1].startswith('/')
                              else 'absolute-path-escaped')
    if tag == 'DIST' and '/' in path:
        return REJECT, None, 'dist-slash'
    reason = 'path' if verdict != ACCEPT else ''
    if tag == 'IGNORE':
        return verdict, (Entry('IGNORE', path=path)
                         if verdict == ACCEPT else None), reason
    v2, size = classify_size(toks[2])
    if v2 == REJECT:
        return REJECT, None, 'size'
    if v2 != ACCEPT:
        reason = 'size'
    verdict = worst(verdict, v2)
    checksums = {}
    for i in range(3, len(toks), 2):
        if toks[i] in checksums:
            verdict = worst(verdict, DONTCARE)   # repeated checksum name
            reason = 'repeated-checksum'
        checksums[toks[i]] = toks[i + 1]
    if tag == 'AUX':
        path = 'files/' + path
    if verdict != ACCEPT:
        return verdict, None, reason
    return ACCEPT, Entry(tag, path=path, size=size, checksums=checksums), ''


def classify_text(text):
    """Classify a whole unsigned Manifest text (as gemato receives it from a
    text stream that splits lines at '\\n' only).
    Returns (verdict, [Entry...] or None, nonblank_line_count, reasons)."""
    verdict = ACCEPT
    entries = []
    nonblank = 0
    reasons = []
    lines = text.split('\n')
    if BEGIN_SIGNED in lines:
        # the signed-message framework is C04's subject
        n = sum(1 for ln in lines if ln.split())
        return DONTCARE, None, n, ['signed-framework']
    for line in lines:
        toks = line.split()
        if not toks:
            continue
        nonblank += 1
        v, e, why = classify_tokens(toks)
        if v == REJECT:
            reasons.append(why)
        verdict = worst(verdict, v)
        if e is not None:
            entries.append(e)
    if verdict != ACCEPT:
        entries = None
    return verdict, entries, nonblank, reasons


def parse_strict(text):
    """Parse text that is expected to be well-formed (written by gemato or by
    the harness).  Raises ValueError otherwise.  Dont-care forms are parsed
    leniently where that is unambiguous."""
    entries = []
    for line in text.split('\n'):
        toks = line.split()
        if not toks:
            continue
        v, e, why = classify_tokens(toks)
        if v == ACCEPT:
            entries.append(e)
            continue
        raise ValueError(f'cannot parse Manifest line: {line!r} ({v})')
    return entries


# ---- signed-message framework (own RFC 4880 cleartext splitter) ----------

BEGIN_SIGNED = '-----BEGIN PGP SIGNED MESSAGE-----'
BEGIN_SIG = '-----BEGIN PGP SIGNATURE-----'
END_SIG = '-----END PGP SIGNATURE-----'


def split_cleartext(text):
    """Split a cleartext-signed message.  Returns (body_text, ok) where
    body_text is the dash-unescaped cleartext, or raises ValueError if the
    text is not exactly one signed message with only blank text outside."""
    lines = text.split('\n')
    i = 0
    while i < len(lines) and not lines[i].strip():
        i += 1
    if i >= len(lines) or lines[i].rstrip('\r') != BEGIN_SIGNED:
        raise ValueError('no signed-message header')
    i += 1
    while i < len(lines) and lines[i].strip():
        i += 1
    if i >= len(lines):
        raise ValueError('no end of armor headers')
    i += 1
    body = []
    while i < len(lines) and lines[i].rstrip('\r') != BEGIN_SIG:
        ln = lines[i]
        if ln.startswith('- '):
            ln = ln[2:]
        elif ln.startswith('-'):
            raise ValueError(f'undashed line in cleartext: {ln!r}')
        body.append(ln)
        i += 1
    if i >= len(lines):
        raise ValueError('no signature')
    while i < len(lines) and lines[i].rstrip('\r') != END_SIG:
        i += 1
    if i >= len(lines):
        raise ValueError('no signature end')
    i += 1
    for ln in lines[i:]:
        if ln.strip():
            raise ValueError('trailing data after signature')
    return '\n'.join(body) + '\n'


# ---- files ---------------------------------------------------------------

SUFFIXES = ('', '.gz', '.bz2', '.lzma', '.xz')


def compression_of(name):
    for s in SUFFIXES[1:]:
        if name.endswith(s):
            return s[1:]
    return None


def strip_compression(name):
    c = compression_of(name)
    return name[:-len(c) - 1] if c else name


def compress(data, fmt):
    if fmt is None or fmt == '':
        return data
    if fmt == 'gz':
        return gzip.compress(data, mtime=0)
    if fmt == 'bz2':
        return bz2.compress(data)
    if fmt == 'lzma':
        return lzma.compress(data, format=lzma.FORMAT_ALONE)
    if fmt == 'xz':
        return lzma.compress(data, format=lzma.FORMAT_XZ)
    raise ValueError(fmt)


def decompress(data, fmt):
    if fmt is None or fmt == '':
        return data
    if fmt == 'gz':
        return gzip.decompress(data)
    if fmt == 'bz2':
        return bz2.decompress(data)
    if fmt == 'lzma':
        return lzma.decompress(data, format=lzma.FORMAT_ALONE)
    if fmt == 'xz':
        return lzma.decompress(data, format=lzma.FORMAT_XZ)
    raise ValueError(fmt)


def read_manifest_file(path):
    """Read (and decompress by suffix) a Manifest file; returns text."""
    with open(path, 'rb') as f:
        data = f.read()
    text = decompress(data, compression_of(path)).decode('utf8')
    if text.lstrip().startswith(BEGIN_SIGNED):
        # cleartext-signed: the entries are those of the cleartext
        text = split_cleartext(text)
    return text


HASHLIB_NAME = {
    'MD5': 'md5', 'SHA1': 'sha1', 'SHA256': 'sha256', 'SHA512': 'sha512',
    'RMD160': 'ripemd160', 'WHIRLPOOL': 'whirlpool', 'BLAKE2B': 'blake2b',
    'BLAKE2S': 'blake2s', 'SHA3_256': 'sha3_256', 'SHA3_512': 'sha3_512',
}

USABLE_HASHES = tuple(
    h for h, n in HASHLIB_NAME.items() if n in hashlib.algorithms_available)


def digests(data, names):
    out = {}
    for n in names:
        alg = HASHLIB_NAME[n]
        if alg in hashlib.algorithms_available:
            out[n] = hashlib.new(alg, data).hexdigest()
        else:
            # not computable here (e.g. WHIRLPOOL): a well-formed stand-in
            out[n] = hashlib.sha512(n.encode() + data).hexdigest()
    return out
