# Harness-side interposition on filesystem primitives (no source hooks).

import contextlib
import hashlib
import os


class _PermutedScandir:
    def __init__(self, real_it, key):
        with real_it:
            entries = list(real_it)
        entries.sort(key=lambda e: key(os.fsdecode(e.name)))
        self._it = iter(entries)

    def __iter__(self):
        return self

    def __next__(self):
        return next(self._it)

    def __enter__(self):
        return self

    def __exit__(self, *a):
        return False

    def close(self):
        pass


class ScandirOrder:
    """Context manager making os.scandir (hence os.walk) return directory
    entries in an order derived from @seed.  .calls counts how often it was
    reached."""

    def __init__(self, seed):
        self.seed = str(seed)
        self.calls = 0

    def key(self, name):
        if self.seed == 'sorted':
            return name
        if self.seed == 'reversed':
            return [-ord(c) for c in name]
        return hashlib.sha1((self.seed + '\0' + name).encode(
            'utf8', 'surrogateescape')).digest()

    def __enter__(self):
        self.real = os.scandir

        def scandir(path='.'):
            self.calls += 1
            return _PermutedScandir(self.real(path), self.key)
        os.scandir = scandir
        return self

    def __exit__(self, *a):
        os.scandir = self.real
        return False


@contextlib.contextmanager
def gzip_clock(value):
    """Make the gzip module see time.time() == value (only matters if a
    gzip header is written without an explicit mtime)."""
    import gzip

    class FakeTime:
        def __getattr__(self, name):
            import time
            return getattr(time, name)

        def time(self):
            return value
    real = gzip.time
    gzip.time = FakeTime()
    try:
        yield
    finally:
        gzip.time = real
