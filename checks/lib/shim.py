# Harness-side interposition on filesystem primitives (no source hooks).

import contextlib
import hashlib
import os


class _PermutedScandir:
    def __init__(self, real_it, key):
        with real_it:
            entries = list(real_it)
        entries.sort(key=lambda e: key(os.fsdecode(e.name)))
        self._it = iter(entries)

    def __iter__(self):
        return self

    def __next__(self):
        return next(self._it)

    def __enter__(self):
        return self

    def __exit__(self, *a):
        return False

    def close(self):
        pass


class ScandirOrder:
    """Context manager making os.scandir (hence os.walk) return directory
    entries in an order derived from @seed.  .calls counts how often it was
    reached."""

    def __init__(self, seed):
        self.seed = str(seed)
        self.calls = 0

    def key(self, name):
        if self.seed == 'sorted':
            return name
        if self.seed == 'reversed':
            return [-ord(c) for c in name]
        return hashlib.sha1((self.seed + '\0' + name).encode(
            'utf8', 'surrogateescape')).digest()

    def __enter__(self):
        self.real = os.scandir

        def scandir(path='.'):
            self.calls += 1
            return _PermutedScandir(self.real(path), self.key)
        os.scandir = scandir
        return self

    def __exit__(self, *a):
        os.scandir = self.real
        return False


@contextlib.contextmanager
def gzip_clock(value):
    """Make the gzip module see time.time() == value (only matters if a
    gzip header is written without an explicit mtime)."""
    import gzip

    class FakeTime:
        def __getattr__(self, name):
            import time
            return getattr(time, name)

        def time(self):
            return value
    real = gzip.time
    gzip.time = FakeTime()
    try:
        yield
    finally:
        gzip.time = real


# --------------------------------------------------------------------------
# fault injection / call counting at the Python-visible filesystem boundary

import builtins
import io


class _FaultyRaw(io.RawIOBase):
    def __init__(self, raw, inj, label):
        self._raw = raw
        self._inj = inj
        self._label = label

    def readable(self):
        return True

    def seekable(self):
        return self._raw.seekable()

    def seek(self, *a):
        return self._raw.seek(*a)

    def tell(self):
        return self._raw.tell()

    def fileno(self):
        return self._raw.fileno()

    def readinto(self, b):
        self._inj._hit('read', self._label)
        return self._raw.readinto(b)

    def close(self):
        if not self.closed:
            try:
                self._raw.close()
            finally:
                super().close()


class _EntryProxy:
    def __init__(self, entry, inj):
        self._e = entry
        self._inj = inj
        self.name = entry.name
        self.path = entry.path

    def __fspath__(self):
        return self._e.path

    def is_dir(self, follow_symlinks=True):
        self._inj._hit('is_dir', self._e.path)
        return self._e.is_dir(follow_symlinks=follow_symlinks)

    def is_file(self, follow_symlinks=True):
        return self._e.is_file(follow_symlinks=follow_symlinks)

    def is_symlink(self):
        return self._e.is_symlink()

    def stat(self, follow_symlinks=True):
        self._inj._hit('entry_stat', self._e.path)
        return self._e.stat(follow_symlinks=follow_symlinks)

    def inode(self):
        return self._e.inode()


class _ScandirProxy:
    def __init__(self, it, inj, path):
        self._it = it
        self._inj = inj
        self._path = path

    def __iter__(self):
        return self

    def __next__(self):
        self._inj._hit('readdir', self._path)
        return _EntryProxy(next(self._it), self._inj)

    def __enter__(self):
        return self

    def __exit__(self, *a):
        self._it.close()
        return False

    def close(self):
        self._it.close()


class FaultInjector:
    """Counts the filesystem calls gemato issues for paths under @root and
    makes the @nth one (0-based) fail with OSError(@err).  With nth=None it
    only counts.  `only` restricts faults to a path (every call on it fails:
    a permanently unreadable object)."""

    def __init__(self, root, nth=None, err=5, only=None, kinds=None):
        self.root = os.path.realpath(root)
        self.nth = nth
        self.err = err
        self.only = os.path.join(self.root, only) if only else None
        self.kinds = kinds
        self.count = 0
        self.log = []
        self.fired = False
        self.fired_call = None
        self.fired_phase = None
        self.phase = 'scan'
        self.fds = set()

    def _under(self, path):
        try:
            p = os.fspath(path)
        except TypeError:
            return False
        if isinstance(p, bytes):
            p = os.fsdecode(p)
        p = os.path.abspath(p)
        return p == self.root or p.startswith(self.root + os.sep)

    def _hit(self, kind, path):
        if kind in ('is_dir', 'entry_stat') and self.kinds is None:
            # os.walk itself tolerates errors of DirEntry.is_dir() (the
            # object is then opened like a file); not a fault site
            return
        if self.kinds is not None and kind not in self.kinds:
            return
        p = os.fspath(path) if not isinstance(path, int) else f'<fd {path}>'
        idx = self.count
        self.count += 1
        self.log.append((kind, p))
        fail = False
        if self.only is not None:
            ap = os.path.abspath(p) if not isinstance(path, int) else p
            fail = (ap == self.only)
        elif self.nth is not None and idx == self.nth:
            fail = True
        if fail:
            self.fired = True
            if self.fired_call is None:
                self.fired_call = f'{kind}({p})'
                self.fired_phase = self.phase
            if kind in ('os.fstat', 'read'):
                # as from the kernel: descriptor-based calls name no file
                raise OSError(self.err, os.strerror(self.err))
            raise OSError(self.err, os.strerror(self.err), p)

    def __enter__(self):
        inj = self
        self._real = dict(os_open=os.open, os_stat=os.stat,
                          os_fstat=os.fstat, os_scandir=os.scandir,
                          os_close=os.close, b_open=builtins.open,
                          io_open=io.open, os_lstat=os.lstat)
        real = self._real

        def os_open(path, flags, *a, **kw):
            if inj._under(path):
                if flags & (os.O_WRONLY | os.O_RDWR | os.O_CREAT):
                    inj.phase = 'save'
                inj._hit('os.open', path)
                fd = real['os_open'](path, flags, *a, **kw)
                inj.fds.add(fd)
                return fd
            return real['os_open'](path, flags, *a, **kw)

        def os_close(fd):
            inj.fds.discard(fd)
            return real['os_close'](fd)

        def os_stat(path, *a, **kw):
            if not isinstance(path, int) and not kw.get('dir_fd') \
                    and inj._under(path):
                inj._hit('os.stat', path)
            return real['os_stat'](path, *a, **kw)

        def os_lstat(path, *a, **kw):
            if not kw.get('dir_fd') and inj._under(path):
                inj._hit('os.lstat', path)
            return real['os_lstat'](path, *a, **kw)

        def os_fstat(fd):
            if fd in inj.fds:
                inj._hit('os.fstat', fd)
            return real['os_fstat'](fd)

        def os_scandir(path='.'):
            if inj._under(path):
                inj._hit('scandir', path)
                return _ScandirProxy(real['os_scandir'](path), inj,
                                     os.fspath(path))
            return real['os_scandir'](path)

        def b_open(file, mode='r', *a, **kw):
            is_fd = isinstance(file, int)
            if (is_fd and file in inj.fds) or (not is_fd
                                               and inj._under(file)):
                if any(c in mode for c in 'wax+'):
                    inj.phase = 'save'
                    return real['b_open'](file, mode, *a, **kw)
                inj._hit('open', file)
                raw = io.FileIO(file, 'r', closefd=kw.get('closefd', True))
                if is_fd:
                    inj.fds.add(file)
                fr = _FaultyRaw(raw, inj, file)
                buf = io.BufferedReader(fr)
                if 'b' in mode:
                    return buf
                tkw = {k: v for k, v in kw.items()
                       if k in ('encoding', 'errors', 'newline')}
                return io.TextIOWrapper(buf, **tkw)
            return real['b_open'](file, mode, *a, **kw)

        os.open = os_open
        os.close = os_close
        os.stat = os_stat
        os.lstat = os_lstat
        os.fstat = os_fstat
        os.scandir = os_scandir
        builtins.open = b_open
        io.open = b_open
        return self

    def __exit__(self, *a):
        r = self._real
        os.open = r['os_open']
        os.close = r['os_close']
        os.stat = r['os_stat']
        os.lstat = r['os_lstat']
        os.fstat = r['os_fstat']
        os.scandir = r['os_scandir']
        builtins.open = r['b_open']
        io.open = r['io_open']
        return False
