# Coverage-guided campaigns (atheris/libFuzzer) as a Part of a check.

import os
import subprocess
import sys

import harness
from harness import ok, violation, skip

DICT = [
    'DATA', 'MANIFEST', 'IGNORE', 'DIST', 'EBUILD', 'MISC', 'AUX',
    'TIMESTAMP', ' ', '\n', '\\x', '\\u', '\\U', '\\x2F', '\\U00110000',
    '\\uD800', '/', '- ', '-----BEGIN PGP SIGNED MESSAGE-----\n',
    '-----BEGIN PGP SIGNATURE-----\n', '-----END PGP SIGNATURE-----\n',
    'Hash: SHA256\n', '2020-01-01T00:00:00Z', ' 0 ', ' MD5 ', '-1', '\t',
    '\u00a0', 'SHA512', '1e3', '+1', '_',
]


def dict_escape(t):
    out = []
    for b in t.encode('utf8'):
        c = chr(b)
        if 0x20 <= b < 0x7f and c not in '"\\':
            out.append(c)
        else:
            out.append('\\x%02x' % b)
    return ''.join(out)


SEEDS = [
    'DATA a 0 MD5 d41d8cd98f00b204e9800998ecf8427e\n',
    'IGNORE distfiles\nTIMESTAMP 2020-01-01T00:00:00Z\n',
    'DIST foo.tar 12 SHA512 ab\nAUX p\\x20q 1\n',
    '-----BEGIN PGP SIGNED MESSAGE-----\nHash: SHA256\n\nDATA a 0\n'
    '- DATA b 1\n-----BEGIN PGP SIGNATURE-----\n\nabc\n'
    '-----END PGP SIGNATURE-----\n',
    'MANIFEST sub/Manifest 5 MD5 00\nEBUILD x.ebuild 1\nMISC m 2\n',
]


def available():
    return os.path.isdir(os.path.join(harness.VERIF, '.deps', 'atheris'))


def enum_campaigns(runs):
    def enum(tier, shard, nshards):
        yield {'campaign': shard, 'runs': runs[tier],
               'corpus': 'seeded' if shard % 2 else 'empty',
               'seed': int(os.environ.get('VERIF_SEED', '1')) * 1000 + shard}
    return enum


def run_campaign(mode, check_text):
    def run(desc):
        if 'crash_text' in desc:
            return check_text(desc['crash_text'])
        if not available():
            return skip('atheris-not-installed')
        d = harness.fresh_dir('fz')
        try:
            crash = os.path.join(d, 'crash')
            corpus = os.path.join(d, 'corpus')
            os.mkdir(crash)
            os.mkdir(corpus)
            if desc['corpus'] == 'seeded':
                for i, t in enumerate(SEEDS):
                    with open(os.path.join(corpus, f's{i}'), 'w') as f:
                        f.write(t)
            dct = os.path.join(d, 'dict')
            with open(dct, 'w') as f:
                for i, t in enumerate(DICT):
                    f.write(f'kw{i}="{dict_escape(t)}"\n')
            script = os.path.join(harness.CHECKS, 'fuzz_text.py')
            p = subprocess.run(
                [sys.executable, script, mode, crash,
                 f'-runs={desc["runs"]}', f'-seed={desc["seed"]}',
                 '-max_len=300', f'-dict={dct}',
                 f'-artifact_prefix={crash}/', corpus],
                capture_output=True, text=True,
                env=dict(os.environ, VERIF_REPO=harness.REPO))
            n = nn = 0
            try:
                with open(os.path.join(crash, 'counts')) as f:
                    n, nn = (int(x) for x in f.read().split())
            except (OSError, ValueError):
                pass
            vi = os.path.join(crash, 'violation.input')
            if os.path.exists(vi):
                with open(vi, 'rb') as f:
                    text = f.read().decode('utf8')
                desc['crash_text'] = text
                res = check_text(text)
                if res.status == 'violation':
                    return res
                return violation('fuzz target reported a violation that '
                                 'does not reproduce: ' + text[:200],
                                 sig='fuzz-nonreproducible')
            if p.returncode != 0 and 'Done' not in p.stderr:
                return skip('fuzzer-failed:' + p.stderr[-200:])
            r = ok(nontrivial=nn > 0, classes=('corpus:' + desc['corpus'],))
            r.subcases = max(n, 1)
            r.subcases_nontrivial = nn
            return r
        finally:
            harness.rmtree(d)
    return run
