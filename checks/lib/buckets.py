# Exception bucketing: (type name, innermost function inside the gemato
# package or utils) -> signature string.

import os
import traceback

import harness


def innermost_gemato_frame(exc):
    repo = os.path.realpath(harness.REPO) + os.sep
    best = None
    tb = exc.__traceback__
    for fs in traceback.extract_tb(tb):
        fn = os.path.realpath(fs.filename)
        if fn.startswith(repo):
            best = fs
    return best


def signature(exc):
    fs = innermost_gemato_frame(exc)
    where = fs.name if fs is not None else '?'
    return f'exc:{type(exc).__name__}:{where}'


def describe(exc, limit=3000):
    return ''.join(traceback.format_exception(
        type(exc), exc, exc.__traceback__))[-limit:]
