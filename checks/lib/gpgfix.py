# OpenPGP fixtures built with the system gpg in scratch homes.

import os
import shutil
import subprocess
import tempfile

import harness

GPG = os.environ.get('GNUPG', 'gpg')
GPGCONF = os.environ.get('GNUPGCONF', 'gpgconf')


def have_gpg():
    return shutil.which(GPG) is not None


class GpgHome:
    def __init__(self, parent=None, trust_model=None):
        parent = parent or harness.scratch_root()
        self.home = tempfile.mkdtemp(prefix='gh.', dir=parent)
        os.chmod(self.home, 0o700)
        with open(os.path.join(self.home, 'gpg-agent.conf'), 'w') as f:
            f.write('disable-scdaemon\n')
        if trust_model:
            with open(os.path.join(self.home, 'gpg.conf'), 'w') as f:
                f.write(f'trust-model {trust_model}\n')

    def env(self):
        e = dict(os.environ)
        e['GNUPGHOME'] = self.home
        e['TZ'] = 'UTC'
        return e

    def run(self, args, stdin=b'', check=False, extra=()):
        p = subprocess.run([GPG, '--batch', '--no-tty'] + list(extra)
                           + list(args), input=stdin, env=self.env(),
                           capture_output=True)
        if check and p.returncode != 0:
            raise harness.HarnessError(
                f'gpg {args} failed: {p.stderr.decode(errors="replace")}')
        return p

    def gen_key(self, uid, usage='sign', expire='0', faked_time=None,
                algo='ed25519'):
        extra = []
        if faked_time:
            extra = ['--faked-system-time', faked_time]
        p = self.run(['--passphrase', '', '--pinentry-mode', 'loopback',
                      '--status-fd', '1', '--quick-generate-key', uid, algo,
                      usage, expire], check=True, extra=extra)
        for line in p.stdout.splitlines():
            if line.startswith(b'[GNUPG:] KEY_CREATED'):
                return line.split()[-1].decode()
        raise harness.HarnessError('no KEY_CREATED: ' + p.stdout.decode())

    def add_subkey(self, fpr, usage='sign', expire='0', algo='ed25519'):
        self.run(['--passphrase', '', '--pinentry-mode', 'loopback',
                  '--quick-add-key', fpr, algo, usage, expire], check=True)

    def export(self, fpr=None, secret=False, options=None):
        args = []
        if options:
            args += ['--export-options', options]
        args += ['--export-secret-keys' if secret else '--export']
        if fpr:
            args.append(fpr)
        return self.run(args, check=True).stdout

    def import_keys(self, blob):
        return self.run(['--import'], stdin=blob)

    def set_ownertrust(self, fpr, level):
        self.run(['--import-ownertrust'],
                 stdin=f'{fpr}:{level}:\n'.encode(), check=True)

    def revoke(self, fpr):
        """Generate a revocation certificate for @fpr and import it."""
        p = subprocess.run(
            [GPG, '--no-tty', '--command-fd', '0', '--status-fd', '2',
             '--pinentry-mode', 'loopback', '--passphrase', '',
             '--gen-revoke', fpr],
            input=b'y\n0\n\ny\n', env=self.env(), capture_output=True)
        if b'BEGIN PGP PUBLIC KEY BLOCK' not in p.stdout:
            raise harness.HarnessError(
                'gen-revoke failed: ' + p.stderr.decode(errors='replace'))
        self.import_keys(p.stdout)
        return p.stdout

    def clearsign(self, text, keyid=None, extra=()):
        args = list(extra) + ['--clearsign']
        if keyid:
            args = ['--local-user', keyid] + args
        p = self.run(args, stdin=text.encode('utf8'), check=True)
        return p.stdout.decode('utf8')

    def verify(self, text):
        p = self.run(['--status-fd', '1', '--verify'],
                     stdin=text.encode('utf8', 'surrogateescape'))
        return p.returncode, p.stdout.decode('utf8', 'replace')

    def decrypt(self, text):
        """Returns (rc, cleartext bytes, status text)."""
        p = self.run(['--status-fd', '2', '--decrypt'],
                     stdin=text.encode('utf8', 'surrogateescape'))
        return p.returncode, p.stdout, p.stderr.decode('utf8', 'replace')

    def close(self):
        try:
            subprocess.run([GPGCONF, '--kill', 'all'], env=self.env(),
                           capture_output=True)
        except Exception:
            pass
        shutil.rmtree(self.home, ignore_errors=True)


def status_keywords(status):
    out = []
    for line in status.splitlines():
        if line.startswith('[GNUPG:] '):
            out.append(line.split()[1])
    return out
