# Shared runner for the gemato property checks.
#
# A property module (checks/props/cNN.py) exposes
#   PROPERTY   = 'CNN'
#   LEVEL      = 'exploration' | 'fault_enumeration'
#   RULE       = text: how cases are generated and what makes one non-trivial
#   ASSUMPTIONS= [text, ...]
#   PARTS      = [Part(...), ...]
#
# Every part is run on up to 16 worker processes (shards).  A part is either
# driven by Hypothesis (strategy -> JSON-serialisable case descriptor) or by a
# deterministic enumerator.  `run_case(desc)` is a pure function of the
# descriptor and of the code under /repo; it returns a Result.  A violation
# whose signature is listed as "known" in known_findings.json is counted and
# treated as passing, so the search continues behind it.
#
# Exit codes of main(): 0 held, 1 violation (VIOLATION line printed),
# 2 harness error / inconclusive.

import collections
import hashlib
import importlib
import json
import multiprocessing
import os
import shutil
import signal
import sys
import tempfile
import time
import traceback

LIB = os.path.dirname(os.path.abspath(__file__))
CHECKS = os.path.dirname(LIB)
VERIF = os.path.dirname(CHECKS)
REPO = os.environ.get('VERIF_REPO', '/repo')
NCPU = min(16, os.cpu_count() or 1)


def setup_paths():
    """Make sure gemato is imported from the working tree of REPO."""
    for p in (REPO, CHECKS, LIB):
        if p in sys.path:
            sys.path.remove(p)
    sys.path.insert(0, LIB)
    sys.path.insert(0, CHECKS)
    sys.path.insert(0, REPO)
    sys.dont_write_bytecode = True
    import gemato
    gf = os.path.realpath(gemato.__file__)
    if not gf.startswith(os.path.realpath(REPO) + os.sep):
        raise HarnessError(f'gemato imported from {gf}, not from {REPO}')


class HarnessError(Exception):
    pass


class Violation(Exception):
    """Raised inside a Hypothesis test for an unlisted violation."""


# --------------------------------------------------------------------------
# results

class Result:
    __slots__ = ('status', 'nontrivial', 'classes', 'detail', 'sig',
                 'dontcare', 'subcases', 'subcases_nontrivial')

    def __init__(self, status, nontrivial=False, classes=(), detail='',
                 sig=None, dontcare=False):
        self.status = status
        self.nontrivial = nontrivial
        self.classes = tuple(classes)
        self.detail = detail
        self.sig = sig
        self.dontcare = dontcare
        # a case that enumerates many placements internally reports them here
        self.subcases = None
        self.subcases_nontrivial = None


def ok(nontrivial=False, classes=(), dontcare=False):
    return Result('ok', nontrivial, classes, dontcare=dontcare)


def violation(detail, sig=None, classes=(), nontrivial=True):
    return Result('violation', nontrivial, classes, detail, sig)


def skip(reason, classes=()):
    return Result('skip', False, classes, reason)


class Part:
    def __init__(self, name, run_case, strategy=None, enumerate=None,
                 examples=None, budget=None, shards=None, exhaustive=False,
                 prepare=None):
        """
        name       part name
        run_case   desc -> Result
        strategy   tier -> hypothesis strategy            (kind hypothesis)
        enumerate  (tier, shard, nshards) -> iterator of descs (kind enum)
        examples   {'quick': n, 'thorough': n} total Hypothesis examples
        budget     {'quick': s, 'thorough': s} wall budget for generation
        shards     {'quick': n, 'thorough': n} worker count (default NCPU)
        exhaustive True if the enumerator covers a finite space completely
        prepare    optional tier -> None, run once per worker before cases
        """
        self.name = name
        self.run_case = run_case
        self.strategy = strategy
        self.enumerate = enumerate
        self.examples = examples or {'quick': 1000, 'thorough': 20000}
        self.budget = budget or {'quick': 60, 'thorough': 600}
        self.shards = shards or {'quick': NCPU, 'thorough': NCPU}
        self.exhaustive = exhaustive
        self.prepare = prepare


# --------------------------------------------------------------------------
# known findings

def load_known(prop):
    path = os.path.join(VERIF, 'known_findings.json')
    known = {}
    if os.path.exists(path):
        with open(path) as f:
            data = json.load(f)
        for e in data.get('findings', []):
            if e.get('property') == prop and e.get('status') == 'known':
                known[e['sig']] = e.get('what', e['sig'])
    return known


# --------------------------------------------------------------------------
# scratch

_scratch_root = None


def scratch_base():
    for cand in ('/dev/shm', os.environ.get('TMPDIR'), tempfile.gettempdir()):
        if cand and os.path.isdir(cand) and os.access(cand, os.W_OK):
            return cand
    raise HarnessError('no writable scratch directory')


def scratch_root():
    """Per-process scratch directory (created on first use)."""
    global _scratch_root
    if _scratch_root is None or not os.path.isdir(_scratch_root):
        parent = os.environ.get('GEMATO_VERIF_SCRATCH')
        if parent and os.path.isdir(parent):
            _scratch_root = tempfile.mkdtemp(prefix='w.', dir=parent)
        else:
            _scratch_root = tempfile.mkdtemp(
                prefix=f'gemato-verif.{os.getpid()}.', dir=scratch_base())
    return _scratch_root


_case_counter = 0


def fresh_dir(prefix='case'):
    global _case_counter
    _case_counter += 1
    d = os.path.join(scratch_root(), f'{prefix}{_case_counter}')
    os.mkdir(d)
    return d


def rmtree(path):
    def onerr(func, p, exc):
        try:
            os.chmod(p, 0o700)
            func(p)
        except OSError:
            pass
    if os.path.islink(path):
        os.unlink(path)
    elif os.path.isdir(path):
        shutil.rmtree(path, onerror=onerr)
    elif os.path.lexists(path):
        os.unlink(path)


# --------------------------------------------------------------------------
# statistics

def desc_hash(desc):
    return hashlib.sha1(
        json.dumps(desc, sort_keys=True, ensure_ascii=True).encode()
    ).hexdigest()[:16]


def abbreviate(desc, limit=700):
    s = json.dumps(desc, sort_keys=True, ensure_ascii=True)
    if len(s) <= limit:
        return desc
    return {'abbreviated_json': s[:limit] + '...', 'full_length': len(s)}


class Stats:
    def __init__(self):
        self.evaluations = 0
        self.nontrivial = set()
        self.nontrivial_enum = 0     # enumerated cases: distinct by construction
        self.classes = collections.Counter()
        self.samples = []
        self.skipped = collections.Counter()
        self.known = collections.Counter()
        self.known_example = {}
        self.dontcare = 0
        self.violation = None
        self.budget_skipped = 0
        self.error = None
        self.wall = 0.0
        self.completed = False

    def record(self, desc, res, enumerated=False):
        self.evaluations += 1
        for c in res.classes:
            self.classes[c] += 1
        if res.dontcare:
            self.dontcare += 1
        if res.status == 'skip':
            self.skipped[res.detail] += 1
            return
        if res.subcases is not None:
            self.evaluations += res.subcases - 1
            h = desc_hash(desc)
            if h not in self.nontrivial and res.subcases_nontrivial:
                self.nontrivial.add(h)
                self.nontrivial_enum += res.subcases_nontrivial - 1
                if len(self.samples) < 5 and len(self.nontrivial) in (
                        1, 7, 50, 300, 2000):
                    self.samples.append(abbreviate(desc))
            return
        if res.nontrivial and enumerated:
            self.nontrivial_enum += 1
            n = self.nontrivial_enum
            if len(self.samples) < 5 and n in (1, 7, 50, 300, 2000):
                self.samples.append(abbreviate(desc))
        elif res.nontrivial:
            h = desc_hash(desc)
            if h not in self.nontrivial:
                self.nontrivial.add(h)
                n = len(self.nontrivial)
                # keep the 1st, 10th, 100th ... distinct nontrivial case
                if len(self.samples) < 5 and n in (1, 7, 50, 300, 2000):
                    self.samples.append(abbreviate(desc))

    def to_json(self):
        return {
            'evaluations': self.evaluations,
            'nontrivial': sorted(self.nontrivial),
            'nontrivial_enum': self.nontrivial_enum,
            'classes': dict(self.classes),
            'samples': self.samples,
            'skipped': dict(self.skipped),
            'known': dict(self.known),
            'known_example': self.known_example,
            'dontcare': self.dontcare,
            'violation': self.violation,
            'budget_skipped': self.budget_skipped,
            'error': self.error,
            'wall': self.wall,
            'completed': self.completed,
        }


def _atomic_write(path, obj):
    tmp = path + '.tmp'
    with open(tmp, 'w') as f:
        json.dump(obj, f, ensure_ascii=True)
    os.replace(tmp, path)


def derive_seed(seed, *parts):
    h = hashlib.sha256(
        (':'.join([str(seed)] + [str(p) for p in parts])).encode())
    return int(h.hexdigest()[:12], 16)


# --------------------------------------------------------------------------
# worker

def _worker(prop, part_name, tier, seed, shard, nshards, outdir, scratch):
    signal.signal(signal.SIGTERM, signal.SIG_DFL)
    signal.signal(signal.SIGINT, signal.SIG_DFL)
    os.environ['GEMATO_VERIF_SCRATCH'] = scratch
    stats = Stats()
    statfile = os.path.join(outdir, f'stats-{shard}.json')
    violfile = os.path.join(outdir, f'violation-{shard}.json')
    t0 = time.monotonic()
    try:
        setup_paths()
        mod = importlib.import_module(f'props.{prop.lower()}')
        part = [p for p in mod.PARTS if p.name == part_name][0]
        known = load_known(prop)
        budget = part.budget[tier]
        if part.prepare is not None:
            part.prepare(tier)

        enumerated = part.enumerate is not None
        # development aid: VERIF_COLLECT=1 buckets every violation by
        # signature instead of stopping at the first one
        collect = bool(os.environ.get('VERIF_COLLECT'))

        last_dump = [time.monotonic()]

        def handle(desc):
            res = part.run_case(desc)
            stats.record(desc, res, enumerated)
            if time.monotonic() - last_dump[0] > 5:
                # partial results survive if the parent has to stop us
                last_dump[0] = time.monotonic()
                stats.wall = time.monotonic() - t0
                try:
                    _atomic_write(statfile, stats.to_json())
                except Exception:
                    pass
            if res.status == 'violation':
                if res.sig is not None and (res.sig in known or collect):
                    stats.known[res.sig] += 1
                    prev = stats.known_example.get(res.sig)
                    if prev is None or len(json.dumps(desc)) < len(
                            json.dumps(prev['desc'])):
                        stats.known_example[res.sig] = {
                            'desc': desc, 'detail': res.detail[:2000]}
                    return None
                v = {'property': prop, 'part': part_name, 'desc': desc,
                     'detail': res.detail, 'sig': res.sig, 'shard': shard}
                stats.violation = v
                stats.wall = time.monotonic() - t0
                _atomic_write(violfile, v)
                _atomic_write(statfile, stats.to_json())
                return v
            return None

        if part.enumerate is not None:
            for desc in part.enumerate(tier, shard, nshards):
                if time.monotonic() - t0 > budget:
                    stats.budget_skipped += 1
                    break
                if handle(desc) is not None:
                    break
            else:
                stats.completed = True
        else:
            from hypothesis import given, settings, HealthCheck, Phase
            from hypothesis import seed as hseed
            total = part.examples[tier]
            n = total // nshards + (1 if shard < total % nshards else 0)
            if n > 0:
                phases = [Phase.generate, Phase.shrink]

                @hseed(derive_seed(seed, prop, part_name, shard))
                @settings(max_examples=n, database=None, deadline=None,
                          derandomize=False, report_multiple_bugs=False,
                          suppress_health_check=list(HealthCheck),
                          phases=phases, print_blob=False)
                @given(part.strategy(tier))
                def test(desc):
                    if (stats.violation is None
                            and time.monotonic() - t0 > budget):
                        stats.budget_skipped += 1
                        return
                    v = handle(desc)
                    if v is not None:
                        raise Violation(v['detail'])

                try:
                    test()
                    stats.completed = stats.budget_skipped == 0
                except Violation:
                    pass
    except BaseException:
        stats.error = traceback.format_exc()
    finally:
        stats.wall = time.monotonic() - t0
        try:
            wc = getattr(sys.modules.get(f'props.{prop.lower()}'),
                         'worker_cleanup', None)
            if wc is not None:
                wc()
        except Exception:
            pass
        try:
            _atomic_write(statfile, stats.to_json())
        except Exception:
            pass
        try:
            if _scratch_root:
                rmtree(_scratch_root)
        except Exception:
            pass


# --------------------------------------------------------------------------
# main

def merge(all_stats):
    m = {
        'evaluations': 0, 'nontrivial': set(), 'nontrivial_enum': 0, 'classes': collections.Counter(),
        'samples': [], 'skipped': collections.Counter(),
        'known': collections.Counter(), 'known_example': {}, 'dontcare': 0,
        'violations': [], 'budget_skipped': 0, 'errors': [],
        'completed': True,
    }
    for s in all_stats:
        m['evaluations'] += s['evaluations']
        m['nontrivial'].update(s['nontrivial'])
        m['nontrivial_enum'] += s.get('nontrivial_enum', 0)
        m['classes'].update(s['classes'])
        m['samples'].extend(s['samples'])
        m['skipped'].update(s['skipped'])
        m['known'].update(s['known'])
        for k, v in s['known_example'].items():
            if k not in m['known_example']:
                m['known_example'][k] = v
        m['dontcare'] += s['dontcare']
        if s['violation']:
            m['violations'].append(s['violation'])
        m['budget_skipped'] += s['budget_skipped']
        if s['error']:
            m['errors'].append(s['error'])
        m['completed'] = m['completed'] and s.get('completed', False)
    return m


def nt(m):
    return len(m['nontrivial']) + m['nontrivial_enum']


def run_part(prop, part, tier, seed, scratch, grace):
    outdir = tempfile.mkdtemp(prefix=f'out.{part.name}.', dir=scratch)
    nshards = max(1, min(part.shards[tier], NCPU))
    if part.enumerate is None:
        nshards = max(1, min(nshards, part.examples[tier]))
    ctx = multiprocessing.get_context('fork')
    procs = []
    for shard in range(nshards):
        p = ctx.Process(target=_worker, args=(
            prop, part.name, tier, seed, shard, nshards, outdir, scratch))
        p.start()
        procs.append(p)
    deadline = time.monotonic() + part.budget[tier] + grace
    for p in procs:
        p.join(max(0.1, deadline - time.monotonic()))
    killed = 0
    for p in procs:
        if p.is_alive():
            killed += 1
            p.terminate()
            p.join(5)
            if p.is_alive():
                p.kill()
                p.join(5)
    all_stats = []
    for shard in range(nshards):
        sf = os.path.join(outdir, f'stats-{shard}.json')
        vf = os.path.join(outdir, f'violation-{shard}.json')
        s = None
        if os.path.exists(sf):
            with open(sf) as f:
                s = json.load(f)
        if os.path.exists(vf):
            with open(vf) as f:
                v = json.load(f)
            if s is None:
                s = Stats().to_json()
            # the violation file holds the smallest failing case seen so far
            s['violation'] = v
        if s is None:
            # stopped before its first progress report: inconclusive shard,
            # not an alarm
            s = Stats().to_json()
            s['budget_skipped'] = 1
        all_stats.append(s)
    m = merge(all_stats)
    m['killed_during_shrink'] = killed
    m['nshards'] = nshards
    return m


def write_replay(prop, v):
    d = os.path.join(VERIF, 'replays', prop)
    os.makedirs(d, exist_ok=True)
    h = desc_hash(v['desc'])
    path = os.path.join(d, f'{v["part"]}-{h}.json')
    with open(path, 'w') as f:
        json.dump({'property': prop, 'part': v['part'], 'desc': v['desc'],
                   'detail': v['detail'], 'sig': v['sig']},
                  f, indent=1, ensure_ascii=True)
    return path


def write_evidence(mod, tier, seed, parts_result, wall, nviol, extra=None):
    prop = mod.PROPERTY
    evaluations = sum(m['evaluations'] for m in parts_result.values())
    distinct = sum(nt(m) for m in parts_result.values())
    samples = []
    for name, m in parts_result.items():
        for s in m['samples'][:3]:
            samples.append({'part': name, 'case': s})
    per_part = {}
    for name, m in parts_result.items():
        per_part[name] = {
            'evaluations': m['evaluations'],
            'distinct_nontrivial': nt(m),
            'classes': dict(sorted(m['classes'].items())),
            'skipped': dict(m['skipped']),
            'dont_care': m['dontcare'],
            'known_findings_hit': dict(m['known']),
            'budget_skipped': m['budget_skipped'],
            'completed': m['completed'],
            'workers': m['nshards'],
        }
    exhaustive_parts = [p.name for p in mod.PARTS
                       if p.exhaustive and p.name in parts_result
                       and parts_result[p.name]['completed']]
    cov = {
        'evaluations': evaluations,
        'distinct_nontrivial': distinct,
        'rule': mod.RULE,
        'samples': samples,
        'parts': per_part,
        'exhaustive': bool(exhaustive_parts) and len(exhaustive_parts) == len(
            parts_result),
        'exhaustive_parts': exhaustive_parts,
        'known_findings_hit': {
            k: v for m in parts_result.values() for k, v in m['known'].items()},
    }
    if extra:
        cov.update(extra)
    ev = {
        'property_id': prop,
        'tier': tier,
        'seed': seed,
        'level': mod.LEVEL,
        'coverage': cov,
        'assumptions': list(mod.ASSUMPTIONS),
        'wall_s': round(wall, 2),
        'violations': nviol,
    }
    d = os.environ.get('VERIF_EVIDENCE_DIR') or os.path.join(VERIF, 'evidence')
    os.makedirs(d, exist_ok=True)
    with open(os.path.join(d, f'{prop}.json'), 'w') as f:
        json.dump(ev, f, indent=1, ensure_ascii=True)


def main(argv):
    import argparse
    ap = argparse.ArgumentParser()
    ap.add_argument('property')
    ap.add_argument('--tier', default=os.environ.get('VERIF_TIER', 'quick'),
                    choices=['quick', 'thorough'])
    ap.add_argument('--replay')
    ap.add_argument('--part', action='append')
    ap.add_argument('--scale', type=float, default=1.0,
                    help='multiply example counts and budgets')
    args = ap.parse_args(argv)
    prop = args.property.upper()
    try:
        seed = int(os.environ.get('VERIF_SEED', '1'))
    except ValueError:
        seed = 1
    os.environ.setdefault('PYTHONHASHSEED', '0')

    try:
        setup_paths()
        mod = importlib.import_module(f'props.{prop.lower()}')
    except Exception:
        traceback.print_exc()
        print(f'HARNESS-ERROR property={prop} cannot load check')
        return 2

    known = load_known(prop)

    if args.replay:
        with open(args.replay) as f:
            r = json.load(f)
        part = [p for p in mod.PARTS if p.name == r['part']][0]
        try:
            if part.prepare is not None:
                part.prepare('quick')
            res = part.run_case(r['desc'])
        finally:
            if _scratch_root:
                rmtree(_scratch_root)
        print(f'replay: status={res.status} sig={res.sig}')
        if res.detail:
            print(res.detail)
        if res.status == 'violation':
            if res.sig in known:
                print(f'KNOWN-FINDING: property={prop} {known[res.sig]}')
                return 0
            print(f'VIOLATION property={prop} replay={args.replay}')
            return 1
        return 0

    tier = args.tier
    t0 = time.monotonic()
    scratch = tempfile.mkdtemp(prefix=f'gemato-verif.{os.getpid()}.',
                               dir=scratch_base())

    def cleanup(*a):
        rmtree(scratch)
        if a:
            sys.exit(2)
    signal.signal(signal.SIGTERM, cleanup)
    signal.signal(signal.SIGINT, cleanup)

    results = {}
    try:
        grace = 40 if tier == 'quick' else 150
        for part in mod.PARTS:
            if args.part and part.name not in args.part:
                continue
            if args.scale != 1.0:
                part.examples = {k: max(1, int(v * args.scale))
                                 for k, v in part.examples.items()}
                part.budget = {k: v * args.scale
                               for k, v in part.budget.items()}
            results[part.name] = run_part(prop, part, tier, seed, scratch,
                                          grace)
    finally:
        rmtree(scratch)

    wall = time.monotonic() - t0
    errors = [e for m in results.values() for e in m['errors']]
    violations = [v for m in results.values() for v in m['violations']]
    # one replay per distinct signature
    seen = set()
    reported = []
    for v in sorted(violations,
                    key=lambda v: len(json.dumps(v['desc']))):
        key = (v['part'], v['sig'])
        if key in seen:
            continue
        seen.add(key)
        reported.append(v)

    extra = getattr(mod, 'extra_evidence', None)
    extra = extra(results) if extra else None
    try:
        write_evidence(mod, tier, seed, results, wall, len(reported), extra)
    except Exception:
        traceback.print_exc()
        errors.append('cannot write evidence')

    total_eval = sum(m['evaluations'] for m in results.values())
    for name, m in results.items():
        print(f'[{prop}/{name}] evaluations={m["evaluations"]} '
              f'distinct_nontrivial={nt(m)} '
              f'dontcare={m["dontcare"]} skipped={sum(m["skipped"].values())} '
              f'budget_skipped={m["budget_skipped"]} workers={m["nshards"]}')
    knownhits = collections.Counter()
    for m in results.values():
        knownhits.update(m['known'])
    for sig, n in sorted(knownhits.items()):
        if sig in known:
            print(f'KNOWN-FINDING: property={prop} {known.get(sig, sig)} '
                  f'[sig={sig} hits={n}]')
    if os.environ.get('VERIF_COLLECT'):
        for pname, m in results.items():
            for sig, ex in sorted(m['known_example'].items()):
                if sig in known:
                    continue
                print(f'=== COLLECTED sig={sig} hits={m["known"][sig]}')
                print(ex['detail'][-1200:])
                print('    desc:', json.dumps(ex['desc'])[:600])
                try:
                    print('    replay:', write_replay(prop, dict(
                        ex, sig=sig, part=pname)))
                except Exception as e:      # development aid only
                    print('    (no replay file:', e, ')')
        return 3

    if reported:
        for v in reported:
            path = write_replay(prop, v)
            print(f'--- violation in part {v["part"]} sig={v["sig"]}')
            print(v['detail'][:4000])
            print(f'VIOLATION property={prop} replay={path}')
        return 1
    if errors:
        for e in errors:
            print(e, file=sys.stderr)
        print(f'HARNESS-ERROR property={prop} ({len(errors)} worker errors)')
        return 2
    if total_eval == 0:
        print(f'HARNESS-ERROR property={prop} no case was evaluated')
        return 2
    print(f'OK property={prop} tier={tier} seed={seed} wall={wall:.1f}s')
    return 0
