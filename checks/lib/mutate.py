# Mutations of a materialised tree (concrete, JSON-serialisable operations)
# and their Hypothesis generator.

import os
import shutil

from hypothesis import strategies as st

import refmanifest as R
import treegen
from treegen import BASE_MTIME


def apply_ops(root, ops):
    """Apply the operations in order; one that is impossible on the current
    state (its parent has become a file, ...) is skipped."""
    done = 0
    for op in ops:
        try:
            apply_op(root, op)
            done += 1
        except (FileExistsError, NotADirectoryError, FileNotFoundError,
                IsADirectoryError):
            pass
    return done


def _remove(path):
    if os.path.islink(path) or not os.path.isdir(path):
        if os.path.lexists(path):
            os.unlink(path)
    else:
        shutil.rmtree(path)


def apply_op(root, op):
    path = os.path.join(root, op['p'])
    k = op['op']
    if k in ('write', 'add'):
        os.makedirs(os.path.dirname(path), exist_ok=True)
        if k == 'write' or os.path.lexists(path):
            _remove(path)
        with open(path, 'wb') as f:
            f.write(treegen.content_bytes(op))
        if 'm' in op:
            os.utime(path, (op['m'], op['m']))
    elif k == 'delete':
        _remove(path)
    elif k == 'mkdir':
        os.makedirs(path, exist_ok=True)
    elif k == 'retype':
        _remove(path)
        if op['to'] == 'dir':
            os.mkdir(path)
            if op.get('child'):
                with open(os.path.join(path, op['child']), 'wb') as f:
                    f.write(b'x')
        elif op['to'] == 'fifo':
            os.mkfifo(path)
        elif op['to'] == 'link':
            os.symlink(op['target'], path)
        elif op['to'] == 'file':
            with open(path, 'wb') as f:
                f.write(b'was a directory\n')
    elif k == 'symlink':
        os.makedirs(os.path.dirname(path), exist_ok=True)
        os.symlink(op['target'], path)
    elif k == 'touch':
        if os.path.exists(path):
            os.utime(path, (op['m'], op['m']))
    elif k == 'rewrite_manifest':
        data = R.compress(op['text'].encode('utf8'), op['fmt'])
        with open(path, 'wb') as f:
            f.write(data)
    else:
        raise ValueError(k)


@st.composite
def mutations(draw, spec, lay, rendered, max_ops=4, min_ops=0,
              kinds=None):
    """Generate 0..max_ops concrete operations against the tree."""
    nodes = spec['nodes']
    files = [n for n in nodes if n['t'] == 'f']
    dirs = [''] + [n['p'] for n in nodes if n['t'] == 'd']
    ignores = [e['path'] for m in lay['manifests'] for e in m['entries']
               if e['tag'] == 'IGNORE']
    subm = [mf for mf in rendered if mf['p'] != 'Manifest']
    taken = {n['p'] for n in nodes} | {mf['p'] for mf in rendered}
    ops = []
    n = draw(st.integers(min_ops, max_ops))
    mtime = st.sampled_from([BASE_MTIME - 10, BASE_MTIME + 25,
                             BASE_MTIME + 25.75, BASE_MTIME + 100])
    allowed = kinds or ['same-size', 'resize', 'delete', 'stray', 'retype',
                        'touch', 'manifest', 'dir-to-file', 'stray-dir']
    for _ in range(n):
        kind = draw(st.sampled_from(allowed))
        if kind == 'same-size' and files:
            f = draw(st.sampled_from(files))
            data = treegen.content_bytes(f)
            if len(data) == 0:
                continue
            i = draw(st.integers(0, len(data) - 1))
            new = bytearray(data)
            new[i] = (new[i] + 1) % 256
            op = {'op': 'write', 'p': f['p'],
                  'c': bytes(new).decode('latin-1'), 'latin': True,
                  'm': draw(st.one_of(st.just(f.get('m', BASE_MTIME)),
                                      mtime))}
            ops.append(op)
        elif kind == 'resize' and files:
            f = draw(st.sampled_from(files))
            data = treegen.content_bytes(f)
            if draw(st.booleans()) and len(data) > 0:
                new = data[:-1]
            else:
                new = data + b'+'
            ops.append({'op': 'write', 'p': f['p'],
                        'c': new.decode('latin-1'), 'latin': True,
                        'm': draw(st.one_of(st.just(f.get('m', BASE_MTIME)),
                                            mtime))})
        elif kind == 'delete' and files:
            f = draw(st.sampled_from(files))
            ops.append({'op': 'delete', 'p': f['p']})
        elif kind == 'stray':
            where = draw(st.integers(0, 5))
            d = draw(st.sampled_from(dirs))
            name = draw(st.sampled_from(['stray', 'new file', 'zzz']))
            if d != '' and draw(st.integers(0, 5)) == 0 and not any(
                    t.startswith(d + '/Manifest') for t in taken):
                # a stray that merely carries a Manifest file name (only
                # where no variant of that Manifest name exists)
                name = draw(st.sampled_from(['Manifest', 'Manifest.gz']))
            if where == 0:
                name = '.stray'
            elif where == 1 and ignores:
                ig = draw(st.sampled_from(ignores))
                # under the ignored path (if it is a directory) or next to a
                # look-alike of it
                p = draw(st.sampled_from([ig + '/inside', ig + 'bar',
                                          ig + '.d', ig[:-1] or 'q']))
                if p not in taken and '//' not in p \
                        and os.path.basename(p) not in ('', '.', '..'):
                    parent_ok = all(
                        os.path.dirname(p) != t['p'] or t['t'] == 'd'
                        for t in nodes)
                    isfile = any(t['p'] == os.path.dirname(p)
                                 and t['t'] != 'd' for t in nodes)
                    if parent_ok and not isfile:
                        ops.append({'op': 'add', 'p': p, 'c': 'stray\n',
                                    'm': BASE_MTIME})
                        taken.add(p)
                continue
            p = (d + '/' if d else '') + name
            if p in taken:
                continue
            taken.add(p)
            ops.append({'op': 'add', 'p': p, 'c': 'stray\n',
                        'm': BASE_MTIME})
        elif kind == 'stray-dir':
            d = draw(st.sampled_from(dirs))
            p = (d + '/' if d else '') + draw(
                st.sampled_from(['newdir', 'empty dir']))
            if p in taken:
                continue
            taken.add(p)
            ops.append({'op': 'mkdir', 'p': p})
            if draw(st.booleans()):
                ops.append({'op': 'add', 'p': p + '/inner', 'c': 'x',
                            'm': BASE_MTIME})
        elif kind == 'retype' and files:
            f = draw(st.sampled_from(files))
            to = draw(st.sampled_from(['dir', 'fifo', 'link', 'link']))
            op = {'op': 'retype', 'p': f['p'], 'to': to}
            if to == 'link':
                other = draw(st.sampled_from(files))
                if draw(st.booleans()) or other is f:
                    op['target'] = 'dangling-target'
                else:
                    op['target'] = os.path.relpath(
                        other['p'], os.path.dirname(f['p']) or '.')
            elif to == 'dir' and draw(st.booleans()):
                op['child'] = 'child'
            ops.append(op)
        elif kind == 'file-to-dir' and files:
            f = draw(st.sampled_from(files))
            op = {'op': 'retype', 'p': f['p'], 'to': 'dir'}
            if draw(st.integers(0, 3)) != 0:
                op['child'] = 'child'
            ops.append(op)
        elif kind == 'dir-to-file' and len(dirs) > 1:
            d = draw(st.sampled_from(dirs[1:]))
            ops.append({'op': 'retype', 'p': d, 'to': 'file'})
        elif kind == 'touch' and files:
            f = draw(st.sampled_from(files))
            ops.append({'op': 'touch', 'p': f['p'], 'm': draw(mtime)})
        elif kind == 'manifest' and subm:
            mf = draw(st.sampled_from(subm))
            how = draw(st.integers(0, 2))
            if how == 0:
                text = mf['text'] + 'DIST injected 1 SHA512 00\n'
            elif how == 1:
                text = mf['text'] + '\n'
            else:
                lines = mf['text'].split('\n')
                text = '\n'.join(lines[1:]) if len(lines) > 2 else (
                    mf['text'] + ' \n')
            ops.append({'op': 'rewrite_manifest', 'p': mf['p'],
                        'text': text, 'fmt': mf['fmt']})
    return ops
