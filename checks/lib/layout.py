# Manifest layouts over a tree spec: symbolic generation (Hypothesis) and
# rendering to concrete Manifest files (bottom-up, with the harness' own
# writer and one-shot hashlib digests).

import datetime
import os

from hypothesis import strategies as st

import refmanifest as R
import treegen

FMTS = ['', '', '', 'gz', 'bz2', 'lzma', 'xz']
HASHSETS = [h for h in ('MD5', 'SHA1', 'SHA256', 'SHA512', 'BLAKE2B',
                        'BLAKE2S', 'SHA3_256', 'SHA3_512', 'RMD160')
            if h in R.USABLE_HASHES]


def dirname(p):
    return p.rsplit('/', 1)[0] if '/' in p else ''


def covers(mdir, path):
    return mdir == '' or path.startswith(mdir + '/')


def rel(path, mdir):
    return path if mdir == '' else path[len(mdir) + 1:]


def component_prefix(prefix, path):
    prefix = prefix.rstrip('/')
    return prefix == path or path.startswith(prefix + '/')


hashset = st.lists(st.sampled_from(HASHSETS), min_size=1, max_size=3,
                   unique=True)


@st.composite
def layout(draw, spec, sub_manifests=True, duplicates=True, ignores=True,
           dist=True, timestamp=True, lies=False, second_manifest=True,
           compressed=True, hashsets=None, conflicts=True,
           sub_prob=(1, 3), second_prob=(1, 5), under_ignore=True,
           dup_manifest_entries=False, odd_spellings=False):
    """Returns a symbolic layout:
    {'manifests': [{'p','fmt','dir','parent','entries','mpos','mhash'}],
     'tags': [...]}   manifests[0] is the top-level one."""
    hs = hashsets if hashsets is not None else hashset
    vis = treegen.visible(spec)
    nodes = {n['p']: n for n in spec['nodes']}
    link_paths = [n['p'] for n in spec['nodes']
                  if n['t'] == 'l' and n['k'] == 'd']
    link_targets = [n['abs'] for n in spec['nodes']
                    if n['t'] == 'l' and n['k'] == 'd']

    def in_link_zone(p):
        return any(component_prefix(x, p) for x in link_paths + link_targets)

    tags = []
    manifests = [{'p': 'Manifest', 'fmt': '', 'dir': '', 'parent': None,
                  'entries': [], 'mhash': draw(hs)}]
    real_dirs = [p for p, n in nodes.items() if n['t'] == 'd'
                 and not treegen.is_hidden(p) and not in_link_zone(p)]
    used_names = set(vis) | {'Manifest'}
    if sub_manifests:
        for d in sorted(real_dirs):
            if draw(st.integers(0, sub_prob[1] - 1)) >= sub_prob[0]:
                continue
            fmt = draw(st.sampled_from(FMTS)) if compressed else ''
            p = d + '/Manifest' + ('.' + fmt if fmt else '')
            if p in used_names:
                continue
            cands = [i for i, m in enumerate(manifests)
                     if covers(m['dir'], p)]
            parent = cands[-1] if draw(st.integers(0, 3)) else draw(
                st.sampled_from(cands))
            used_names.add(p)
            manifests.append({'p': p, 'fmt': fmt, 'dir': d, 'parent': parent,
                              'entries': [], 'mhash': draw(hs)})
            tags.append('sub-manifest')
            if fmt:
                tags.append('compressed')
        if second_manifest and draw(
                st.integers(0, second_prob[1] - 1)) < second_prob[0]:
            # a Manifest referenced from another one in the same directory
            i = draw(st.integers(0, len(manifests) - 1))
            d = manifests[i]['dir']
            fmt = draw(st.sampled_from(FMTS)) if compressed else ''
            nm = draw(st.sampled_from(['Manifest.files', 'Manifest.extra',
                                       'more.manifest']))
            p = (d + '/' if d else '') + nm + ('.' + fmt if fmt else '')
            if p not in used_names:
                used_names.add(p)
                manifests.append({'p': p, 'fmt': fmt, 'dir': d, 'parent': i,
                                  'entries': [], 'mhash': draw(hs)})
                tags.append('same-dir-manifest')
                if fmt:
                    tags.append('compressed')
    mpaths = {m['p'] for m in manifests}
    if dup_manifest_entries and duplicates:
        # a sub-Manifest referenced a second time from further up its chain,
        # with another hash set; sometimes that second reference lies
        for ci, m in enumerate(manifests):
            if m['parent'] is None or draw(st.integers(0, 4)) != 0:
                continue
            chain = []
            j = m['parent']
            while j is not None:
                chain.append(j)
                j = manifests[j]['parent']
            m['extra_ref'] = {
                'holder': draw(st.sampled_from(chain)),
                'hash': draw(hs),
                'lie': lies and draw(st.integers(0, 2)) == 0}
            tags.append('dup-manifest-entry')
            if m['extra_ref']['lie']:
                tags.append('dup-manifest-entry-lie')

    # IGNORE entries
    ignored = []
    if ignores and draw(st.integers(0, 2)) == 0:
        nign = draw(st.integers(1, 2))
        cand = [p for p in vis if not treegen.is_hidden(p)
                and not any(component_prefix(p, mp) for mp in mpaths)]
        # hidden objects (skipped by every walk anyway) named by an IGNORE,
        # like the usual "IGNORE .git"
        hidden_cand = [p for p in vis
                       if os.path.basename(p).startswith('.')
                       and not treegen.is_hidden(os.path.dirname(p))
                       and not any(component_prefix(p, mp) for mp in mpaths)]
        for _ in range(nign):
            kind = draw(st.integers(0, 4))
            if kind == 4 and hidden_cand:
                ip = draw(st.sampled_from(sorted(hidden_cand)))
                tags.append('ignore-hidden')
            elif kind <= 1 and cand:
                ip = draw(st.sampled_from(sorted(cand)))
                tags.append('ignore-exact')
            elif kind == 2 and cand:
                base = draw(st.sampled_from(sorted(cand)))
                ip = draw(st.sampled_from(
                    [base + 'bar', base[:-1] or 'q', base + '.d',
                     base + '/zz']))
                if ip.endswith('/') and draw(st.integers(0, 3)):
                    ip = ip.rstrip('/') + 'q'
                if ip in vis or ip in mpaths or os.path.basename(
                        ip.rstrip('/')) in ('', '.', '..'):
                    continue
                tags.append('ignore-lookalike')
            else:
                ip = draw(st.sampled_from(['distfiles', 'no such', 'fo']))
                if ip in vis:
                    continue
                tags.append('ignore-absent')
            cands = [i for i, m in enumerate(manifests)
                     if covers(m['dir'], ip)
                     and rel(ip, m['dir']).strip('/') != '']
            mi = draw(st.sampled_from(cands))
            manifests[mi]['entries'].append({'tag': 'IGNORE', 'path': ip})
            ignored.append(ip)

    def is_ignored(p):
        # "IGNORE dir/" (trailing slash) is not honoured by the directory
        # walk; files beneath keep their entries
        return any(component_prefix(i, p) for i in ignored
                   if not i.endswith('/'))

    # file entries
    file_entries = []       # (manifest index, entry dict)
    for p in sorted(vis):
        v = vis[p]
        if v[0] != 'f' or p in mpaths or p == 'Manifest':
            continue
        if is_ignored(p):
            if not under_ignore or draw(st.integers(0, 9)) != 0:
                continue
            tags.append('entry-under-ignore')
        if treegen.is_hidden(p):
            if draw(st.integers(0, 2)) != 0:
                continue
            tags.append('hidden-listed')
        cands = [i for i, m in enumerate(manifests) if covers(m['dir'], p)]
        deepest = max(cands, key=lambda i: len(manifests[i]['dir']))
        mi = deepest if draw(st.integers(0, 2)) else draw(
            st.sampled_from(cands))
        r = rel(p, manifests[mi]['dir'])
        tagc = ['DATA', 'DATA', 'DATA', 'MISC', 'EBUILD']
        if r.startswith('files/'):
            tagc += ['AUX', 'AUX']
        tag = draw(st.sampled_from(tagc))
        hset = draw(hs)
        e = {'tag': tag, 'path': p, 'size': len(v[1]),
             'ck': R.digests(v[1], hset)}
        if odd_spellings and tag != 'AUX' and draw(st.integers(0, 7)) == 0:
            # the same file, spelled the long way round
            e['spell'] = draw(st.sampled_from(['./', '/./', '//']))
            tags.append('odd-spelling')
        manifests[mi]['entries'].append(e)
        file_entries.append((mi, e))
        if duplicates and draw(st.integers(0, 5)) == 0:
            mj = draw(st.sampled_from(cands))
            relation = draw(st.sampled_from(
                ['same', 'subset', 'superset', 'disjoint']))
            if relation == 'same':
                h2 = list(hset)
            elif relation == 'subset':
                h2 = hset[:max(1, len(hset) - 1)]
            elif relation == 'superset':
                h2 = list(hset) + [h for h in HASHSETS if h not in hset][:1]
            else:
                h2 = [h for h in HASHSETS if h not in hset][:2]
            tag2 = draw(st.sampled_from([tag, tag, 'DATA', 'EBUILD']))
            if tag2 == 'AUX' and not rel(p, manifests[mj]['dir']).startswith(
                    'files/'):
                tag2 = 'DATA'
            e2 = {'tag': tag2, 'path': p, 'size': len(v[1]),
                  'ck': R.digests(v[1], h2)}
            tags.append('dup-' + relation)
            if conflicts and draw(st.integers(0, 2)) == 0:
                kind = draw(st.sampled_from(['size', 'digest', 'tag']))
                if kind == 'size':
                    e2['size'] += 1
                    tags.append('dup-conflict-size')
                elif kind == 'digest':
                    common = [h for h in h2 if h in hset]
                    if common:
                        e2['ck'][common[0]] = flip(e2['ck'][common[0]])
                        tags.append('dup-conflict-digest')
                    else:
                        # disjoint sets: a wrong digest is a plain mismatch
                        e2['ck'][h2[0]] = flip(e2['ck'][h2[0]])
                        tags.append('dup-second-digest-wrong')
                else:
                    e2['tag'] = 'MISC' if tag != 'MISC' else 'DATA'
                    tags.append('dup-conflict-tag')
            manifests[mj]['entries'].append(e2)

    if lies and file_entries and draw(st.integers(0, 2)) == 0:
        mi, e = draw(st.sampled_from(file_entries))
        kind = draw(st.sampled_from(['size', 'digest', 'missing']))
        if kind == 'size':
            e['size'] += draw(st.sampled_from([1, -1 if e['size'] else 1]))
        elif kind == 'digest':
            h = sorted(e['ck'])[-1]
            e['ck'][h] = flip(e['ck'][h])
        else:
            ghost = dict(e)
            ghost['path'] = e['path'] + '.gone'
            ghost['ck'] = dict(e['ck'])
            if ghost['path'] not in vis:
                if ghost['tag'] == 'AUX':
                    ghost['tag'] = 'DATA'
                manifests[mi]['entries'].append(ghost)
        tags.append('lie-' + kind)

    if dist and draw(st.integers(0, 3)) == 0:
        mi = draw(st.integers(0, len(manifests) - 1))
        dname = draw(st.sampled_from(['foo-1.tar.gz', 'a', 'x y.zip']))
        # a distfile may well be called like a local file listed next to it
        local = sorted({rel(e['path'], manifests[mi]['dir'])
                        for e in manifests[mi]['entries']
                        if e['tag'] in ('DATA', 'MISC', 'EBUILD')})
        local = [n for n in local if '/' not in n]
        if local and draw(st.booleans()):
            dname = draw(st.sampled_from(local))
            tags.append('dist-named-like-local-file')
        manifests[mi]['entries'].append(
            {'tag': 'DIST', 'path': dname, 'size': 12,
             'ck': {'SHA512': 'ab' * 64}})
        tags.append('dist')
    if timestamp and draw(st.integers(0, 3)) == 0:
        manifests[0]['entries'].append(
            {'tag': 'TIMESTAMP', 'ts': treegen.BASE_MTIME - 1000})
        tags.append('timestamp')
    # entry order within each Manifest
    for m in manifests:
        if len(m['entries']) > 1 and draw(st.integers(0, 1)):
            m['entries'] = draw(st.permutations(m['entries']))
    return {'manifests': manifests, 'tags': sorted(set(tags))}


def flip(hexval):
    c = hexval[0]
    return ('1' if c == '0' else '0') + hexval[1:]


def to_entry(e, mdir):
    tag = e['tag']
    if tag == 'TIMESTAMP':
        return R.Entry('TIMESTAMP', ts=datetime.datetime.utcfromtimestamp(
            e['ts']))
    if tag == 'DIST':
        return R.Entry('DIST', path=e['path'], size=e['size'],
                       checksums=e['ck'])
    p = rel(e['path'], mdir)
    if tag == 'IGNORE':
        return R.Entry('IGNORE', path=p)
    sp = e.get('spell')
    if sp == './':
        p = './' + p
    elif sp and '/' in p:
        p = p.replace('/', sp, 1)
    elif sp:
        p = './' + p
    return R.Entry(tag, path=p, size=e['size'], checksums=e['ck'])


def render(lay, order_seed=None):
    """Render a symbolic layout bottom-up (entries of every Manifest shuffled
    by @order_seed if given).  Returns the Manifest files in
    write order (children before parents): [{'p','fmt','text'}]."""
    manifests = lay['manifests']
    children = {i: [] for i in range(len(manifests))}
    for i, m in enumerate(manifests):
        if m['parent'] is not None:
            children[m['parent']].append(i)
    out = []
    rendered = {}

    def do(i):
        m = manifests[i]
        entries = [to_entry(e, m['dir']) for e in m['entries']]
        for c in children[i]:
            data = do(c)
            cm = manifests[c]
            if not cm.get('registered', True):
                continue
            ment = R.Entry(
                'MANIFEST', path=rel(cm['p'], m['dir']), size=len(data),
                checksums=R.digests(data, cm['mhash']))
            dent = R.Entry('DATA', path=ment.path, size=ment.size,
                           checksums=dict(ment.checksums))
            # (a Manifest file that is *also* listed as a plain data file)
            if cm.get('also_data') == 'before':
                entries.append(dent)
            entries.append(ment)
            if cm.get('also_data') == 'after':
                entries.append(dent)
        for c, cm in enumerate(manifests):
            x = cm.get('extra_ref')
            if x and x['holder'] == i and c in rendered:
                ck = R.digests(rendered[c], x['hash'])
                if x['lie']:
                    k0 = sorted(ck)[0]
                    ck[k0] = flip(ck[k0])
                entries.append(R.Entry(
                    'MANIFEST', path=rel(cm['p'], m['dir']),
                    size=len(rendered[c]), checksums=ck))
        if order_seed is not None:
            import hashlib
            entries.sort(key=lambda en: hashlib.sha1(
                (str(order_seed) + en.to_line()).encode(
                    'utf8', 'surrogatepass')).digest())
            # ... and the checksums within some lines are written in
            # another order as well
            for en in entries:
                if en.tag not in ('TIMESTAMP', 'IGNORE') and hashlib.sha1(
                        (str(order_seed) + 'ck' + en.to_line()).encode(
                            'utf8', 'surrogatepass')).digest()[0] & 1:
                    en.ck_reversed = True
        text = R.dump_entries(entries)
        if m.get('eol'):
            text = text.replace('\n', m['eol'])    # CRLF / CR line ends
        data = R.compress(text.encode('utf8', 'surrogatepass'), m['fmt'])
        rendered[i] = data
        out.append({'p': m['p'], 'fmt': m['fmt'], 'text': text})
        return data

    do(0)
    return out


def write_manifests(files, root):
    for mf in files:
        path = os.path.join(root, mf['p'])
        os.makedirs(os.path.dirname(path), exist_ok=True)
        data = R.compress(mf['text'].encode('utf8', 'surrogatepass'),
                          mf['fmt'])
        with open(path, 'wb') as f:
            f.write(data)
        os.utime(path, (treegen.BASE_MTIME, treegen.BASE_MTIME))
