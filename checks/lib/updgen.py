# Prior Manifest states and update operations (shared by C03, C10, C12, C13,
# C18): generation and execution.

import os

from hypothesis import strategies as st

import gem
import layout
import mutate
import refverify
import treegen
from treegen import BASE_MTIME

HASHSETS = layout.HASHSETS

JUNK_TEXTS = ['this is not a Manifest\n', 'DATA\n', 'FOO bar 1\n',
              'DATA x notanumber\n', '\x00\x01\x02']


@st.composite
def prior_state(draw, allow_none=True, lies=True, conflicts=True,
                junk=True, hidden=True, dir_links=True, max_dirs=4,
                max_files=7, sub_prob=(1, 2), ignores=True, dist=True,
                timestamp=True, second_manifest=True, odd_spellings=True,
                dual_listed=False, root_junk=False, dup_refs=True):
    """Tree + arbitrary prior Manifest state.
    Returns {'tree', 'manifests', 'pre_ops', 'tags', 'mode'}."""
    spec = draw(treegen.tree_spec(max_dirs=max_dirs, max_files=max_files,
                                  fifos=False, dangling=False,
                                  hidden=hidden, dir_links=dir_links))
    mode = 'layout'
    if allow_none and draw(st.integers(0, 7)) == 0:
        mode = 'none'
    tags = []
    if mode == 'none':
        return {'tree': spec, 'manifests': [], 'pre_ops': [],
                'tags': ['no-manifest'], 'mode': mode}
    lay = draw(layout.layout(spec, lies=lies, conflicts=conflicts,
                             sub_prob=sub_prob, ignores=ignores, dist=dist,
                             timestamp=timestamp,
                             second_manifest=second_manifest,
                             odd_spellings=odd_spellings,
                             # (a sub-Manifest referenced from its parent
                             # and once more from further up; the second
                             # reference never lies here)
                             dup_manifest_entries=dup_refs))
    if dup_refs:
        for m in lay['manifests']:
            if m.get('extra_ref'):
                m['extra_ref']['lie'] = False
    tags += lay['tags']
    manifests = lay['manifests']
    # files without entries
    if draw(st.integers(0, 2)) == 0:
        for m in manifests:
            keep = []
            for e in m['entries']:
                if (e['tag'] in ('DATA', 'MISC', 'EBUILD', 'AUX')
                        and draw(st.integers(0, 3)) == 0):
                    tags.append('unlisted-file')
                    continue
                keep.append(e)
            m['entries'] = keep
    # unregistered but valid sub-Manifests
    for m in manifests[1:]:
        if draw(st.integers(0, 5)) == 0:
            m['registered'] = False
            tags.append('unregistered-manifest')
    if dual_listed and len(manifests) > 1 and draw(st.integers(0, 9)) == 0:
        m = manifests[draw(st.integers(1, len(manifests) - 1))]
        if m.get('registered', True):
            m['also_data'] = draw(st.sampled_from(['before', 'after']))
            tags.append('manifest-also-listed-as-data:' + m['also_data'])
    rendered = layout.render(lay)
    pre_ops = []
    # stale state: edit files after the Manifests were written
    if draw(st.integers(0, 1)) == 0:
        pre_ops += draw(mutate.mutations(
            spec, lay, rendered, min_ops=1, max_ops=4,
            kinds=['same-size', 'resize', 'delete', 'stray', 'stray-dir',
                   'touch', 'manifest']))
        if pre_ops:
            tags.append('stale')
        if any(o['op'] == 'rewrite_manifest' for o in pre_ops):
            tags.append('stale-manifest-ref')
    # junk files carrying Manifest names
    if junk and draw(st.integers(0, 5)) == 0:
        nodes = spec['nodes']
        link_zone = [n['p'] for n in nodes if n['t'] == 'l'] + [
            n['abs'] for n in nodes if n['t'] == 'l' and 'abs' in n]
        dirs = [n['p'] for n in nodes if n['t'] == 'd'
                and not treegen.is_hidden(n['p'])
                and not any(refverify.comp_prefix(z, n['p'])
                            for z in link_zone)]
        taken = {n['p'] for n in nodes} | {m['p'] for m in rendered}
        if dirs:
            d = draw(st.sampled_from(dirs))
            name = draw(st.sampled_from(['Manifest', 'Manifest.gz',
                                         'Manifest.bz2', 'Manifest.xz']))
            p = d + '/' + name
            base = d + '/Manifest'
            if not any(t == base or t.startswith(base + '.') for t in taken):
                pre_ops.append({'op': 'add', 'p': p, 'latin': True,
                                'c': draw(st.sampled_from(JUNK_TEXTS)),
                                'm': BASE_MTIME})
                tags.append('junk-manifest')
    if root_junk and draw(st.integers(0, 11)) == 0:
        # a stray file in the top directory that carries the name of a
        # compressed variant of the top-level Manifest
        name = draw(st.sampled_from(['Manifest.gz', 'Manifest.bz2',
                                     'Manifest.xz']))
        taken = {n['p'] for n in spec['nodes']} | {m['p'] for m in rendered}
        if not any(t.startswith('Manifest.') and '/' not in t and t != name
                   and t.split('.')[-1] in ('gz', 'bz2', 'lzma', 'xz')
                   for t in taken) and name not in taken:
            pre_ops.append({'op': 'add', 'p': name, 'latin': True,
                            'c': draw(st.sampled_from(JUNK_TEXTS)),
                            'm': BASE_MTIME})
            tags.append('root-level-manifest-variant')
    return {'tree': spec, 'manifests': rendered, 'pre_ops': pre_ops,
            'tags': sorted(set(tags)), 'mode': mode,
            'ignores': [e['path'] for m in manifests for e in m['entries']
                        if e['tag'] == 'IGNORE']}


def updatable_dirs(state):
    """Real, visible, non-ignored directories of the tree ('' included)."""
    spec = state['tree']
    ign = state.get('ignores', [])
    link_zone = [n['p'] for n in spec['nodes'] if n['t'] == 'l']
    out = ['']
    for n in spec['nodes']:
        if n['t'] != 'd' or treegen.is_hidden(n['p']):
            continue
        if any(refverify.comp_prefix(i, n['p']) for i in ign):
            continue
        if any(refverify.comp_prefix(z, n['p']) for z in link_zone):
            continue
        out.append(n['p'])
    return out


@st.composite
def update_opts(draw, state, allow_subdir=True, allow_cli=True,
                allow_force=True, allow_compress=True):
    dirs = updatable_dirs(state)
    target = ''
    if allow_subdir and state['mode'] != 'none' and len(dirs) > 1 \
            and draw(st.integers(0, 2)) == 0:
        target = draw(st.sampled_from(dirs[1:]))
    o = {
        'hashes': draw(st.lists(st.sampled_from(HASHSETS), min_size=1,
                                max_size=3, unique=True)),
        'sort': draw(st.sampled_from([None, None, True, False])),
        'force': allow_force and draw(st.integers(0, 4)) == 0,
        'target': target,
        'api': draw(st.sampled_from(['lib', 'lib', 'cli']))
        if allow_cli else 'lib',
        'watermark': None, 'format': None,
    }
    if o['api'] == 'lib' and target and draw(st.integers(0, 3)) == 0:
        o['target_slash'] = True    # 'sub/' instead of 'sub'
    if allow_compress and draw(st.integers(0, 2)) == 0:
        o['watermark'] = draw(st.sampled_from([0, 40, 120, 300, 10 ** 6]))
        o['format'] = draw(st.sampled_from([None, 'gz', 'bz2', 'lzma',
                                            'xz']))
    if o['api'] == 'cli' and o['sort'] is not None:
        o['sort'] = None        # the CLI has no sort option (profile only)
    if o['api'] == 'cli':
        o['spelling'] = draw(st.sampled_from(
            ['abs', 'abs', 'abs-slash', 'rel', 'rel-dot', 'rel-slash',
             'from-inside']))
    return o


@st.composite
def edits(draw, state, max_ops=4, min_ops=0, retype=False):
    """File edits between update rounds (content/size change, add, delete)."""
    spec = state['tree']
    lay = {'manifests': []}
    # (existing Manifest files are "taken": edits never overwrite them)
    return draw(mutate.mutations(
        spec, lay, state.get('manifests', []), min_ops=min_ops,
        max_ops=max_ops,
        kinds=['same-size', 'resize', 'delete', 'stray', 'stray',
               'stray-dir'] + (['file-to-dir'] if retype else [])))


def build_prior(state, root):
    treegen.materialize(state['tree'], root)
    layout.write_manifests(state['manifests'], root)
    mutate.apply_ops(root, state['pre_ops'])


def run_update(root, o, create=False, last_mtime=None, save=True,
               extra_cli=(), loader_kwargs=None, profile=None, pre=None):
    """Run one update (+save) as described by @o.  Returns gem.Outcome."""
    top = os.path.join(root, 'Manifest')
    if o['api'] == 'cli':
        argv = ['create' if create else 'update',
                '--hashes', ' '.join(o['hashes'])]
        if o['watermark'] is not None:
            argv += ['-c', str(o['watermark'])]
        if o['format'] is not None:
            argv += ['-C', o['format']]
        if o['force']:
            argv += ['-f']
        if profile:
            argv += ['-p', profile]
        argv += list(extra_cli)
        arg, cwd = gem.spell(root, o['target'], o.get('spelling', 'abs'))
        argv.append(arg)
        oc, records, _ = gem.cli(argv, cwd=cwd)
        if oc.kind == 'return' and oc.value not in (0, None):
            oc = gem.Outcome('gemato', value=oc.value, exc=RuntimeError(
                '; '.join(r.getMessage() for r in gem.error_records(records))
            ))
        return oc

    def run():
        kwargs = dict(hashes=list(o['hashes']), allow_create=create)
        if o['sort'] is not None:
            kwargs['sort'] = o['sort']
        if o['watermark'] is not None:
            kwargs['compress_watermark'] = o['watermark']
        if o['format'] is not None:
            kwargs['compress_format'] = o['format']
        if profile:
            from gemato.profile import get_profile_by_name
            kwargs['profile'] = get_profile_by_name(profile)
        kwargs.update(loader_kwargs or {})
        m = gem.ManifestRecursiveLoader(top, **kwargs)
        if pre is not None:
            pre(m)      # earlier use of the same loader instance
        ukw = {}
        if last_mtime is not None:
            ukw['last_mtime'] = last_mtime
        m.update_entries_for_directory(
            o['target'] + ('/' if o.get('target_slash') else ''), **ukw)
        if save:
            m.save_manifests(force=o['force'])
        return m
    return gem.call(run)
