# Independent statement of "the tree matches its Manifests".
# Works from the disk only: parses the Manifests with refmanifest, hashes
# with one-shot hashlib, walks with os.scandir/os.stat.

import hashlib
import os
import stat

import refmanifest as R

COMPATIBLE_TAGS = ('MANIFEST', 'DATA', 'EBUILD', 'AUX')


def comp_prefix(prefix, path):
    """whole-component prefix test"""
    prefix = prefix.rstrip('/')
    return prefix == '' or path == prefix or path.startswith(prefix + '/')


def dirname(p):
    return p.rsplit('/', 1)[0] if '/' in p else ''


def join(d, n):
    return n if d == '' else d + '/' + n


class Model:
    """Result of the reference evaluation for one (root, top, subpath)."""

    def __init__(self):
        self.chain_broken = {}      # manifest path -> reason
        self.unparsable = {}        # manifest path -> reason
        self.incompatible = {}      # path -> reason
        self.incompatible_dontcare = {}
        self.offending = {}         # path -> reason (hard)
        self.soft = {}              # path -> reason (skippable with mtime)
        self.dontcare = {}          # path -> reason
        self.inaccessible = {}      # path -> errno name (subset of offending)
        self.manifests = {}         # loaded manifest path -> [Entry]
        self.entries = {}           # full path -> [(mpath, Entry)]
        self.ignores = []           # full paths
        self.soft_ignores = []      # IGNORE paths written with a trailing /
        self.files_seen = 0

    def summary(self):
        return {
            'chain_broken': self.chain_broken, 'unparsable': self.unparsable,
            'incompatible': self.incompatible,
            'incompatible_dontcare': self.incompatible_dontcare,
            'offending': self.offending, 'soft': self.soft,
            'dontcare': self.dontcare,
        }


def file_digests(path, names):
    with open(path, 'rb') as f:
        data = f.read()
    out = {}
    for n in names:
        alg = R.HASHLIB_NAME.get(n)
        if alg is None or alg not in hashlib.algorithms_available:
            out[n] = None
        else:
            out[n] = hashlib.new(alg, data).hexdigest()
    return len(data), out


def check_file(syspath, size, checksums, last_mtime=None):
    """Compare object at @syspath with expected size/checksums.
    Returns (kind, reason): kind in ok, missing, type, size, digest,
    soft-digest, inaccessible, unsupported."""
    try:
        st = os.stat(syspath)
    except FileNotFoundError:
        return 'missing', 'does not exist'
    except OSError as e:
        return 'inaccessible', os.strerror(e.errno)
    if not stat.S_ISREG(st.st_mode):
        return 'type', 'not a regular file'
    real_size, dg = file_digests(syspath, checksums)
    if real_size != size:
        return 'size', f'size {real_size} != {size}'
    for n, v in checksums.items():
        if dg[n] is None:
            return 'unsupported', f'hash {n} not available'
        if dg[n] != v:
            if (last_mtime is not None and st.st_mtime <= last_mtime
                    and real_size != 0):
                return 'soft-digest', f'{n} differs (not newer than mtime)'
            return 'digest', f'{n} differs'
    return 'ok', ''


def evaluate(root, top='Manifest', subpath='', last_mtime=None,
             check_chain_everywhere=False):
    """Evaluate the tree under @root against the Manifest tree starting at
    root/top for verification of directory @subpath."""
    m = Model()
    # 1. load Manifests through the chain
    try:
        text = R.read_manifest_file(os.path.join(root, top))
        m.manifests[top] = R.parse_strict(text)
    except Exception as e:
        m.unparsable[top] = repr(e)
        return m
    queue = [top]
    while queue:
        mp = queue.pop()
        mdir = dirname(mp)
        for e in m.manifests[mp]:
            if e.tag != 'MANIFEST':
                continue
            full = join(mdir, e.path)
            if full == mp:
                continue
            fdir = dirname(full)
            relevant = (check_chain_everywhere or comp_prefix(fdir, subpath)
                        or comp_prefix(subpath, fdir))
            if not relevant:
                continue
            if full in m.manifests:
                # a further reference to a Manifest already in use: whether
                # the chain check covers it too is not settled (inside the
                # verified path the file walk decides it anyway)
                kind, why = check_file(os.path.join(root, full), e.size,
                                       e.checksums)
                if kind != 'ok':
                    m.dontcare.setdefault(
                        full, f'further MANIFEST entry: {kind}: {why}')
                continue
            kind, why = check_file(os.path.join(root, full), e.size,
                                   e.checksums)
            if kind != 'ok':
                m.chain_broken[full] = f'{kind}: {why}'
                continue
            try:
                text = R.read_manifest_file(os.path.join(root, full))
                m.manifests[full] = R.parse_strict(text)
            except Exception as ex:
                m.unparsable[full] = repr(ex)
                continue
            queue.append(full)

    # 2. collect entries
    for mp, entries in m.manifests.items():
        mdir = dirname(mp)
        for e in entries:
            if e.tag in ('DIST', 'TIMESTAMP'):
                continue
            full = join(mdir, e.path)
            if e.tag == 'IGNORE':
                if full.endswith('/'):
                    # whether "IGNORE dir/" ignores dir is not settled by
                    # the property text: everything beneath is DONT-CARE
                    full = full.rstrip('/')
                    m.soft_ignores.append(full)
                else:
                    m.ignores.append(full)
            if comp_prefix(subpath, full):
                m.entries.setdefault(full, []).append((mp, e))

    def ignored(p):
        return any(comp_prefix(i, p) for i in m.ignores)

    def strictly_under_ignore(p):
        return (any(i != p and comp_prefix(i, p) for i in m.ignores)
                or any(comp_prefix(i, p) for i in m.soft_ignores))

    # 3. duplicates
    merged = {}
    for full, lst in m.entries.items():
        tags = {e.tag for _, e in lst}
        if 'IGNORE' in tags:
            if len(tags) > 1:
                # an IGNORE and a file entry for one and the same path are
                # duplicates of conflicting type (in either order); beneath
                # a further IGNORE, or when only a sub-path is verified,
                # the text can be read either way
                if subpath == '' and not strictly_under_ignore(full):
                    m.incompatible[full] = 'IGNORE and file entry'
                else:
                    m.incompatible_dontcare[full] = 'IGNORE and file entry'
            continue
        size = lst[0][1].size
        cks = {}
        bad = None
        dc = None
        for _, e in lst:
            if e.size != size:
                bad = 'sizes differ'
            for k, v in e.checksums.items():
                if k in cks and cks[k] != v:
                    bad = f'{k} differs'
                cks.setdefault(k, v)
        if len(tags) > 1 and not all(t in COMPATIBLE_TAGS for t in tags):
            dc = f'tags {sorted(tags)}'
        if bad:
            m.incompatible[full] = bad
        elif dc:
            m.incompatible_dontcare[full] = dc
        merged[full] = (size, cks)

    # 4. walk
    seen = set()
    topfull = top

    def verdict_for(full, syspath):
        size, cks = merged[full]
        kind, why = check_file(syspath, size, cks, last_mtime)
        if kind == 'ok':
            return
        target = m.offending
        if strictly_under_ignore(full):
            target = m.dontcare
        elif kind == 'soft-digest':
            target = m.soft
        elif kind == 'unsupported':
            target = m.dontcare
        target[full] = f'{kind}: {why}'
        if kind == 'inaccessible':
            m.inaccessible[full] = why

    def walk(dpath, ancestors):
        sysd = os.path.join(root, dpath) if dpath else root
        try:
            st = os.stat(sysd)
            names = sorted(os.listdir(sysd))
        except OSError as e:
            m.offending[dpath] = f'cannot list: {e}'
            m.inaccessible[dpath] = str(e)
            return
        ident = (st.st_dev, st.st_ino)
        if ident in ancestors:
            m.dontcare[dpath] = 'symlink loop (C16)'
            return
        for name in names:
            if name.startswith('.'):
                continue
            full = join(dpath, name)
            sysp = os.path.join(root, full)
            if any(i == full for i in m.ignores) or ignored(full):
                continue
            stat_err = None
            try:
                isdir = stat.S_ISDIR(os.stat(sysp).st_mode)
            except FileNotFoundError:
                isdir = False
            except OSError as e:
                isdir = False
                stat_err = e
            if isdir:
                if full in merged:
                    seen.add(full)
                    verdict_for(full, sysp)
                    continue
                walk(full, ancestors | {ident})
                continue
            m.files_seen += 1
            if full == topfull and dpath == '':
                continue
            if full in merged:
                seen.add(full)
                verdict_for(full, sysp)
            else:
                if stat_err is not None:
                    # cannot be inspected (ENOTDIR/ELOOP through a link):
                    # a genuine OS error or a mismatch, never success
                    m.offending[full] = f'stray, uninspectable: {stat_err}'
                    m.inaccessible[full] = str(stat_err)
                elif not os.path.exists(sysp) and os.path.islink(sysp):
                    m.dontcare[full] = 'dangling symlink without entry'
                elif strictly_under_ignore(full):
                    m.dontcare[full] = 'stray beneath "IGNORE dir/"'
                else:
                    m.offending[full] = 'stray: no entry'

    if os.path.isdir(os.path.join(root, subpath)):
        if not ignored(subpath) or subpath == '':
            walk(subpath, frozenset())
    # 5. entries not met during the walk
    for full in merged:
        if full in seen:
            continue
        verdict_for(full, os.path.join(root, full))
    return m
