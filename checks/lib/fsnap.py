# Snapshots of a directory tree (lstat-level) and their differences.

import hashlib
import os
import stat


def snapshot(root, content=True):
    """path -> tuple(type, mode, size, mtime_ns, ino, target, sha1)"""
    out = {}
    for dirpath, dirnames, filenames in os.walk(root, followlinks=False):
        for name in dirnames + filenames:
            full = os.path.join(dirpath, name)
            rel = os.path.relpath(full, root)
            st = os.lstat(full)
            if stat.S_ISLNK(st.st_mode):
                out[rel] = ('l', st.st_mode, st.st_size, st.st_mtime_ns,
                            st.st_ino, os.readlink(full), None)
            elif stat.S_ISDIR(st.st_mode):
                # directory mtimes change when entries are created inside;
                # they are reported through the created/deleted sets
                out[rel] = ('d', st.st_mode, None, None, st.st_ino, None,
                            None)
            elif stat.S_ISREG(st.st_mode):
                h = None
                if content:
                    with open(full, 'rb') as f:
                        h = hashlib.sha1(f.read()).hexdigest()
                out[rel] = ('f', st.st_mode, st.st_size, st.st_mtime_ns,
                            st.st_ino, None, h)
            else:
                out[rel] = ('o', st.st_mode, None, st.st_mtime_ns, st.st_ino,
                            None, None)
    return out


def diff(a, b):
    """Returns dict with created, deleted, modified (content or type),
    touched (same content, other mtime/inode/mode)."""
    created = sorted(set(b) - set(a))
    deleted = sorted(set(a) - set(b))
    modified = []
    touched = []
    for p in sorted(set(a) & set(b)):
        x, y = a[p], b[p]
        if x == y:
            continue
        if x[0] != y[0] or x[5] != y[5] or x[6] != y[6] or x[2] != y[2]:
            modified.append(p)
        else:
            touched.append(p)
    return {'created': created, 'deleted': deleted, 'modified': modified,
            'touched': touched}


def changed_paths(d):
    return sorted(set(d['created']) | set(d['deleted']) | set(d['modified'])
                  | set(d['touched']))


def is_empty(d):
    return not changed_paths(d)
