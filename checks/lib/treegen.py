# Tree specifications: generation (Hypothesis), pure-Python view, and
# materialisation on disk.
#
# A tree spec is {'nodes': [node, ...]} with nodes in creation order
# (parents before children).  node = {'p': relative path, 't': type, ...}
#   t = 'd'                       directory
#   t = 'f', 'c': text | 'g': [n, salt], 'm': mtime (int seconds)
#   t = 'l', 'to': link target string (as stored), 'k': 'f'|'d'|'x' (kind of
#       what it points to: file, dir, dangling)
#   t = 'p'                       FIFO

import hashlib
import os
import stat

from hypothesis import strategies as st

BASE_MTIME = 1_500_000_000

NAMES_PLAIN = ['a', 'b', 'c', 'foo', 'foobar', 'foo.d', 'fo', 'sub', 'data',
               'x.txt', 'y', 'z1', 'lib', 'src']
NAMES_HOSTILE = ['x y', 'tab\there', 'back\\slash', 'é', 'ж漢',
                 'nb sp', ' ls', '\U0001F600', '-dash', '#hash',
                 'nl\nx', 'q"uote', 'p%s', 'end ', 'Á']
NAMES_HIDDEN = ['.hidden', '.git', '.a']


def content_bytes(node):
    if 'c' in node:
        if node.get('latin'):
            return node['c'].encode('latin-1')
        return node['c'].encode('utf8', 'surrogatepass')
    n, salt = node['g']
    if n == 0:
        return b''
    return hashlib.shake_128(b'tree-%d-%d' % (n, salt)).digest(n)


@st.composite
def file_content(draw, big=False):
    r = draw(st.integers(0, 19))
    if r == 0:
        return {'c': ''}
    if r <= 12:
        return {'c': draw(st.text(alphabet='abcXYZ 01\n', min_size=1,
                                  max_size=12))}
    if r <= 17 or not big:
        return {'g': [draw(st.integers(1, 200)), draw(st.integers(0, 99))]}
    return {'g': [draw(st.sampled_from([65535, 65536, 65537])),
                  draw(st.integers(0, 9))]}


@st.composite
def tree_spec(draw, max_dirs=4, max_files=7, hostile=True, hidden=True,
              file_links=True, dir_links=True, fifos=True, big=False,
              min_files=1, names=None, dangling=True):
    pool = list(names) if names else list(NAMES_PLAIN)
    if names is None and hostile:
        pool = pool + NAMES_HOSTILE
    name = st.sampled_from(pool)
    if hostile:
        # bias towards plain names, keep hostile ones frequent
        name = st.one_of(st.sampled_from(NAMES_PLAIN if not names else pool),
                         name)
    nodes = []
    used = set()
    dirs = ['']

    def join(d, n):
        return n if d == '' else d + '/' + n

    ndirs = draw(st.integers(0, max_dirs))
    for _ in range(ndirs):
        parent = draw(st.sampled_from(dirs))
        if parent.count('/') >= 3:
            parent = ''
        n = draw(name)
        if hidden and draw(st.integers(0, 11)) == 0:
            n = draw(st.sampled_from(NAMES_HIDDEN))
        sibs = [d.rsplit('/', 1)[-1] for d in dirs[1:]
                if (d.rsplit('/', 1)[0] if '/' in d else '') == parent]
        if sibs and draw(st.integers(0, 3)) == 0:
            # a sibling whose name is a string prefix of this one
            n = draw(st.sampled_from(sibs)) + draw(
                st.sampled_from(['bar', '.d', '-extra', ' x', '0']))
        p = join(parent, n)
        if p in used:
            continue
        used.add(p)
        dirs.append(p)
        nodes.append({'p': p, 't': 'd'})
    nfiles = draw(st.integers(min_files, max_files))
    files = []
    for _ in range(nfiles):
        parent = draw(st.sampled_from(dirs))
        n = draw(name)
        if hidden and draw(st.integers(0, 11)) == 0:
            n = draw(st.sampled_from(NAMES_HIDDEN))
        p = join(parent, n)
        if p in used:
            continue
        used.add(p)
        node = {'p': p, 't': 'f', 'm': BASE_MTIME + draw(st.integers(0, 50))
                + draw(st.sampled_from([0, 0, 0.25, 0.75]))}
        node.update(draw(file_content(big=big)))
        nodes.append(node)
        files.append(p)
    if fifos and draw(st.integers(0, 9)) == 0:
        parent = draw(st.sampled_from(dirs))
        p = join(parent, draw(st.sampled_from(['pipe', 'fifo x'])))
        if p not in used:
            used.add(p)
            nodes.append({'p': p, 't': 'p'})
    if file_links and files and draw(st.integers(0, 4)) == 0:
        parent = draw(st.sampled_from(dirs))
        p = join(parent, draw(st.sampled_from(['link', 'ln k', 'lnk.txt'])))
        if p not in used:
            used.add(p)
            if dangling and draw(st.integers(0, 3)) == 0:
                nodes.append({'p': p, 't': 'l', 'to': 'no-such-target',
                              'k': 'x'})
            else:
                tgt = draw(st.sampled_from(files))
                rel = os.path.relpath(tgt, os.path.dirname(p) or '.')
                nodes.append({'p': p, 't': 'l', 'to': rel, 'k': 'f',
                              'abs': tgt})
    if dir_links and len(dirs) > 1 and draw(st.integers(0, 4)) == 0:
        tgt = draw(st.sampled_from(dirs[1:]))
        # place the link outside the target's subtree (no loops here; loops
        # are C16's subject)
        cands = [d for d in dirs
                 if not (d == tgt or d.startswith(tgt + '/'))]
        # and not inside a hidden place, to keep it visible
        parent = draw(st.sampled_from(cands))
        p = join(parent, draw(st.sampled_from(['dlink', 'd ln'])))
        if p not in used and not (tgt + '/').startswith(p + '/'):
            used.add(p)
            rel = os.path.relpath(tgt, parent or '.')
            nodes.append({'p': p, 't': 'l', 'to': rel, 'k': 'd', 'abs': tgt})
    return {'nodes': nodes}


def materialize(spec, root):
    """Create the tree under existing directory @root."""
    for node in spec['nodes']:
        write_node(root, node)
    # directory mtimes are irrelevant


def write_node(root, node):
    path = os.path.join(root, node['p'])
    t = node['t']
    if t == 'd':
        os.makedirs(path, exist_ok=True)
    elif t == 'f':
        os.makedirs(os.path.dirname(path), exist_ok=True)
        with open(path, 'wb') as f:
            f.write(content_bytes(node))
        m = node.get('m', BASE_MTIME)
        os.utime(path, (m, m))
    elif t == 'l':
        os.makedirs(os.path.dirname(path), exist_ok=True)
        os.symlink(node['to'], path)
    elif t == 'p':
        os.makedirs(os.path.dirname(path), exist_ok=True)
        os.mkfifo(path)
    elif t == 's':
        import socket
        os.makedirs(os.path.dirname(path), exist_ok=True)
        s = socket.socket(socket.AF_UNIX)
        cwd = os.getcwd()
        try:
            # sun_path is short: bind relative to the directory
            os.chdir(os.path.dirname(path))
            s.bind(os.path.basename(path))
        finally:
            os.chdir(cwd)
            s.close()
    else:
        raise ValueError(t)


def is_hidden(path):
    return any(c.startswith('.') for c in path.split('/'))


def visible(spec):
    """Pure-Python view of what a link-following walk sees.
    Returns dict path -> ('f', bytes, mtime) | ('d',) | ('p',) | ('x',)
    including hidden paths (callers filter)."""
    nodes = {n['p']: n for n in spec['nodes']}
    out = {}
    for p, n in nodes.items():
        t = n['t']
        if t == 'd':
            out[p] = ('d',)
        elif t == 'f':
            out[p] = ('f', content_bytes(n), n.get('m', BASE_MTIME))
        elif t in ('p', 's'):
            out[p] = ('p',)
        elif t == 'l':
            if n['k'] == 'x':
                out[p] = ('x',)
            elif n['k'] == 'f':
                tn = nodes[n['abs']]
                out[p] = ('f', content_bytes(tn), tn.get('m', BASE_MTIME))
            else:
                out[p] = ('d',)
                tgt = n['abs']
                for q, qn in nodes.items():
                    if q.startswith(tgt + '/'):
                        vp = p + q[len(tgt):]
                        qt = qn['t']
                        if qt == 'd':
                            out[vp] = ('d',)
                        elif qt == 'f':
                            out[vp] = ('f', content_bytes(qn),
                                       qn.get('m', BASE_MTIME))
                        elif qt == 'p':
                            out[vp] = ('p',)
                        elif qt == 'l':
                            if qn['k'] == 'x':
                                out[vp] = ('x',)
                            elif qn['k'] == 'f':
                                tn = nodes[qn['abs']]
                                out[vp] = ('f', content_bytes(tn),
                                           tn.get('m', BASE_MTIME))
                            # nested dir links are excluded by construction
    return out


def parent_dirs(path):
    """'' and every proper ancestor directory of @path."""
    parts = path.split('/')
    return [''] + ['/'.join(parts[:i]) for i in range(1, len(parts))]
