# Private mount namespace for worker processes: real device boundaries via
# tmpfs mounts inside scratch trees.

import ctypes
import ctypes.util
import os

_libc = None
_state = {'tried': False, 'ok': False, 'why': ''}
MNT_DETACH = 2
MS_REC = 16384
MS_PRIVATE = 1 << 18


def _lib():
    global _libc
    if _libc is None:
        _libc = ctypes.CDLL(ctypes.util.find_library('c') or 'libc.so.6',
                            use_errno=True)
    return _libc


def available():
    """Enter a private mount namespace (once per process)."""
    if _state['tried']:
        return _state['ok']
    _state['tried'] = True
    try:
        os.unshare(os.CLONE_NEWNS)
        lib = _lib()
        if lib.mount(b'none', b'/', None, MS_REC | MS_PRIVATE, None) != 0:
            raise OSError(ctypes.get_errno(), 'make-rprivate failed')
        _state['ok'] = True
    except Exception as e:
        _state['why'] = repr(e)
        _state['ok'] = False
    return _state['ok']


def mount_tmpfs(path):
    lib = _lib()
    if lib.mount(b'tmpfs', os.fsencode(path), b'tmpfs', 0,
                 b'size=4m,mode=0755') != 0:
        e = ctypes.get_errno()
        raise OSError(e, os.strerror(e), path)


def umount(path):
    lib = _lib()
    lib.umount2(os.fsencode(path), MNT_DETACH)


def umount_all_under(root):
    """Unmount everything mounted below @root (deepest first)."""
    root = os.path.realpath(root)
    pts = []
    try:
        with open('/proc/self/mounts') as f:
            for line in f:
                mp = line.split()[1].encode().decode('unicode_escape')
                if mp.startswith(root + '/') or mp == root:
                    pts.append(mp)
    except OSError:
        return
    for mp in sorted(pts, key=len, reverse=True):
        umount(mp)
