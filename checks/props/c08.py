# C08 - Manifest text round-trips: writer and parser are mutual inverses.

import datetime
import io
import os

from hypothesis import strategies as st

import buckets
import harness
import refmanifest as R
from harness import Part, ok, violation, skip

from gemato.compression import open_potentially_compressed_path
from gemato.exceptions import GematoException
from gemato.manifest import (
    ManifestFile, ManifestEntryTIMESTAMP, ManifestEntryIGNORE,
    new_manifest_entry)

from props import c09

PROPERTY = 'C08'
LEVEL = 'exploration'
RULE = ('(codepoints) every code point 0..0x10FFFF (quick: BMP + every 17th '
        'supplementary + boundaries) in 8-10 contexts (alone, between letters, '
        'between hex-like neighbours, after a backslash, before "x41", '
        'inside "u00..41", doubled, literal backslash + x/u/U + its hex '
        'digits) as a DATA path: dump, check one line / '
        'single-space fields, load, compare. (entries) Hypothesis lists of '
        '0..12 entries over all eight tags, hostile paths, sizes to 2**64, '
        '0..10 checksums, any timestamp with second resolution, sorted and '
        'unsorted, through StringIO and through plain/gz/bz2/lzma/xz files. '
        '(locale) 1..6 such entries saved and reloaded by '
        'ManifestRecursiveLoader as plain/gz/bz2/lzma/xz files inside a child '
        'process whose locale encoding is not UTF-8 (LC_ALL=C, UTF-8 mode '
        'off): file bytes and reloaded entries as in a UTF-8 process. '
        '(fixedpoint) every text of C09\'s grammar and mutation generators '
        'that gemato accepts: dump(load(t)) must load to equal entries and '
        'be a fixed point. Non-trivial: a path needing an escape, or >= 2 '
        'entries, or an accepted non-canonical text; distinct by descriptor '
        'hash (code-point blocks: distinct by construction).')
ASSUMPTIONS = [
    'Entry domain: non-empty paths not starting with "/", DIST names without '
    '"/", integer sizes >= 0, checksum tokens without whitespace, timestamps '
    'with zero microseconds.',
    'Lone surrogates are exercised at the str level only (UTF-8 files cannot '
    'carry them).',
]


def ekey(e):
    if e.tag == 'TIMESTAMP':
        return ('TIMESTAMP', e.ts.isoformat())
    if e.tag == 'IGNORE':
        return ('IGNORE', e.path)
    return (e.tag, e.path, e.size, tuple(sorted(e.checksums.items())))


def expected_fields(e):
    if e.tag in ('TIMESTAMP', 'IGNORE'):
        return 2
    return 3 + 2 * len(e.checksums)


def check_layout(text, entries):
    """One line per entry, single-space separated fields."""
    if entries and not text.endswith('\n'):
        return 'text does not end with a newline'
    lines = text.split('\n')
    if lines[-1] == '':
        lines.pop()
    if len(lines) != len(entries):
        return f'{len(entries)} entries but {len(lines)} lines'
    for ln, e in zip(lines, entries):
        fields = ln.split(' ')
        if len(fields) != expected_fields(e):
            return (f'entry {ekey(e)!r} written as {ln!r}: '
                    f'{len(fields)} fields, expected {expected_fields(e)}')
        for fl in fields:
            if fl == '' or any(c.isspace() for c in fl):
                return (f'entry {ekey(e)!r} written as {ln!r}: empty field '
                        f'or whitespace inside a field')
    return None


def roundtrip(entries, sort=False, classes=()):
    """Returns None if fine, else (sig, detail)."""
    m = ManifestFile()
    m.entries = list(entries)
    before = [ekey(e) for e in entries]
    out = io.StringIO()
    try:
        m.dump(out, sign_openpgp=False, sort=sort)
    except Exception as e:
        return ('dump-failed:' + buckets.signature(e),
                f'dump of {before!r} raised\n' + buckets.describe(e)), None
    text = out.getvalue()
    written = list(m.entries)
    wkeys = [ekey(e) for e in written]
    if sorted(wkeys, key=repr) != sorted(before, key=repr):
        return ('dump-changed-entries',
                f'dump changed entries {before!r} -> {wkeys!r}'), text
    if not sort and wkeys != before:
        return ('dump-reordered', f'unsorted dump reordered {before!r}'), text
    bad = check_layout(text, written)
    if bad:
        return ('layout', bad), text
    m2 = ManifestFile()
    try:
        m2.load(io.StringIO(text), verify_openpgp=False)
    except Exception as e:
        sig = ('reload-rejected' if isinstance(e, GematoException)
               else 'reload-failed:' + buckets.signature(e))
        return (sig, f'entries {wkeys!r} dumped as {text!r} do not load '
                f'back\n' + buckets.describe(e)), text
    got = [ekey(e) for e in m2.entries]
    if got != wkeys:
        return ('roundtrip-mismatch',
                f'entries {wkeys!r} dumped as {text!r} load back as '
                f'{got!r}'), text
    return None, text


# --- code points -------------------------------------------------------------

BLOCK = 64
HASHVAL = {'MD5': 'd41d8cd98f00b204e9800998ecf8427e'}


def contexts(c):
    cp = ord(c)
    out = [c, 'a' + c + 'b', '4' + c + '41', '\\' + c, c + 'x41',
           'u00' + c + '41', c + c]
    # a literal backslash followed by what looks like the escape of this
    # code point (must come back as these literal characters)
    if cp <= 0xFF:
        out.append('q\\x%02X' % cp)
    if cp <= 0xFFFF:
        out.append('q\\u%04X' % cp)
    out.append('q\\U%08X' % cp)
    return out


def cp_blocks(tier):
    if tier == 'thorough':
        for s in range(0, 0x110000, BLOCK):
            yield s, 1
    else:
        for s in range(0, 0x10000, BLOCK):
            yield s, 1
        for s in range(0x10000, 0x110000, BLOCK * 17):
            yield s, 17
        yield 0x10FFFF - BLOCK + 1, 1


def enum_codepoints(tier, shard, nshards):
    for i, (s, step) in enumerate(cp_blocks(tier)):
        if i % nshards == shard:
            yield {'start': s, 'step': step}


def run_codepoints(desc):
    entries = []
    for k in range(BLOCK):
        cp = desc['start'] + k * desc['step']
        if cp > 0x10FFFF:
            break
        c = chr(cp)
        for p in contexts(c):
            if p.startswith('/'):
                p = 'd' + p
            entries.append(new_manifest_entry('DATA', p, cp, dict(HASHVAL)))
    bad, text = roundtrip(entries)
    if bad is not None:
        # localise the failing code point / context
        for e in entries:
            b1, _ = roundtrip([e])
            if b1 is not None:
                return violation(
                    f'code point U+{e.size:04X}, path {e.path!r}: {b1[1]}',
                    sig=b1[0])
        return violation(bad[1], sig=bad[0])
    return ok(nontrivial=True, classes=('codepoint-block',))


# --- entry lists -------------------------------------------------------------

HOSTILE = ('abzAZ09._+-,:=@~/ \t\\\n\r\x00\x01\x0b\x0c\x1c\x1f\x7f\x80\x85\x9f'
           '\xa0éж漢      　﻿'
           '\U0001F600xuU4#"\'')

LOOKALIKES = ['\\u00e9', '\\x41', '\\U0001F600', '\\x5C', '\\x5Cx41',
              '\\\\u0041', '\\x5Cu00e9', '\\ud800', '\\x2F']

SURROGATE_RUNS = ['\ud83d\ude00', '\ud800\udc00', '\udbff\udfff',
                  '\ude00\ud83d', '\ud83d\ud83d\ude00', '\ud83dx\ude00']

path_chars = st.one_of(
    st.sampled_from(HOSTILE),
    st.sampled_from(HOSTILE),
    st.characters(min_codepoint=0, max_codepoint=0x10FFFF),
)


@st.composite
def rel_path(draw, allow_slash=True, surrogates=True):
    n = draw(st.integers(1, 12))
    chars = [draw(path_chars) for _ in range(n)]
    if draw(st.integers(0, 3)) == 0:
        chars.insert(draw(st.integers(0, len(chars))),
                     draw(st.sampled_from(LOOKALIKES)))
    if surrogates and draw(st.integers(0, 5)) == 0:
        # two lone surrogates that happen to be neighbours are still two
        # characters, not the astral character a UTF-16 decoder makes of them
        chars.insert(draw(st.integers(0, len(chars))),
                     draw(st.sampled_from(SURROGATE_RUNS)))
    s = ''.join(chars)
    if not surrogates:
        s = ''.join(c for c in s if not 0xD800 <= ord(c) <= 0xDFFF) or 'q'
    if not allow_slash:
        s = s.replace('/', '_')
    if s.startswith('/'):
        s = 'r' + s
    return s


TOKEN_CHARS = 'abcdef0123456789ABCDEFGXYZ_-+/=.:é漢'
token = st.text(alphabet=TOKEN_CHARS, min_size=1, max_size=20)
ck_name = st.one_of(st.sampled_from(list(R.HASHLIB_NAME)), token)


@st.composite
def entry_desc(draw, surrogates=True):
    tag = draw(st.sampled_from(R.ALL_TAGS))
    if tag == 'TIMESTAMP':
        r = draw(st.integers(0, 9))
        if r == 0:
            secs = draw(st.sampled_from(
                [0, 1, 86399, 31536000 * 998, 31536000 * 1000]))
        else:
            secs = draw(st.integers(0, 315537897599))
        return {'tag': tag, 'secs': secs}
    path = draw(rel_path(allow_slash=(tag != 'DIST'), surrogates=surrogates))
    if tag == 'IGNORE':
        return {'tag': tag, 'path': path}
    size = draw(st.one_of(st.integers(0, 2 ** 64),
                          st.sampled_from([0, 1, 2 ** 31, 2 ** 63, 2 ** 64])))
    cks = draw(st.dictionaries(ck_name, token, max_size=10))
    return {'tag': tag, 'path': path, 'size': size, 'cks': cks}


def build_entry(d):
    if d['tag'] == 'TIMESTAMP':
        ts = datetime.datetime(1, 1, 1) + datetime.timedelta(seconds=d['secs'])
        return ManifestEntryTIMESTAMP(ts)
    if d['tag'] == 'IGNORE':
        return ManifestEntryIGNORE(d['path'])
    return new_manifest_entry(d['tag'], d['path'], d['size'], dict(d['cks']))


def strat_entries(tier):
    return st.fixed_dictionaries({
        'entries': st.lists(entry_desc(), max_size=12),
        'sort': st.booleans(),
    })


def needs_esc(d):
    return any(R.needs_escape(c) for c in d.get('path', ''))


def run_entries(desc):
    try:
        entries = [build_entry(d) for d in desc['entries']]
    except (OverflowError, ValueError):
        return skip('timestamp-out-of-range')
    classes = ['sorted' if desc['sort'] else 'unsorted']
    classes += sorted({'tag:' + d['tag'] for d in desc['entries']})
    bad, text = roundtrip(entries, sort=desc['sort'])
    if bad is not None:
        return violation(bad[1], sig=bad[0], classes=classes)
    # the same entry objects after their path was changed (as save_manifests
    # does when a Manifest is renamed): the new path must be what is written
    renamed = False
    for e, d in zip(entries, desc['entries']):
        if d['tag'] in ('MANIFEST', 'DATA', 'IGNORE', 'MISC', 'EBUILD'):
            e.path = (e.path + '.gz' if d['tag'] == 'MANIFEST'
                      else 'new\\x/' + e.path)
            renamed = True
    if renamed:
        bad, text = roundtrip(entries, sort=desc['sort'])
        if bad is not None:
            return violation('after changing .path of dumped entries: '
                             + bad[1], sig='stale-after-path-change:'
                             + bad[0], classes=classes)
        classes.append('path-changed-between-dumps')
    nontrivial = (len(entries) >= 2
                  or any(needs_esc(d) for d in desc['entries']))
    return ok(nontrivial=nontrivial, classes=classes)


# --- through files -----------------------------------------------------------

def strat_files(tier):
    return st.fixed_dictionaries({
        'entries': st.lists(entry_desc(surrogates=False), max_size=10),
        'fmt': st.sampled_from(['', 'gz', 'bz2', 'lzma', 'xz']),
    })


def run_files(desc):
    try:
        entries = [build_entry(d) for d in desc['entries']]
    except (OverflowError, ValueError):
        return skip('timestamp-out-of-range')
    fmt = desc['fmt']
    classes = ['fmt:' + (fmt or 'plain')]
    m = ManifestFile()
    m.entries = list(entries)
    ref = io.StringIO()
    m.dump(ref, sign_openpgp=False)
    d = harness.fresh_dir('c08f')
    try:
        path = os.path.join(d, 'Manifest' + ('.' + fmt if fmt else ''))
        try:
            with open_potentially_compressed_path(
                    path, 'w', encoding='utf8') as f:
                m.dump(f, sign_openpgp=False)
        except Exception as e:
            return violation(
                f'writing {[ekey(x) for x in entries]!r} as {fmt or "plain"} '
                f'failed\n' + buckets.describe(e),
                sig='write-failed:' + buckets.signature(e), classes=classes)
        with open(path, 'rb') as f:
            raw = f.read()
        try:
            ondisk = R.decompress(raw, fmt).decode('utf8')
        except Exception as e:
            return violation(
                f'{fmt} file written by gemato is not readable by the '
                f'stdlib: {e!r}', sig='file-not-decompressible',
                classes=classes)
        if ondisk != ref.getvalue():
            return violation(
                f'{fmt or "plain"} file holds {ondisk!r}, StringIO dump is '
                f'{ref.getvalue()!r}', sig='file-text-differs',
                classes=classes)
        m2 = ManifestFile()
        try:
            with open_potentially_compressed_path(
                    path, 'r', encoding='utf8') as f:
                m2.load(f, verify_openpgp=False)
        except Exception as e:
            return violation(
                f'{fmt or "plain"} file with text {ondisk!r} does not load '
                f'back\n' + buckets.describe(e),
                sig='file-reload-failed', classes=classes)
        got = [ekey(e) for e in m2.entries]
        exp = [ekey(e) for e in entries]
        if got != exp:
            return violation(
                f'{fmt or "plain"} file: {exp!r} loads back as {got!r}',
                sig='file-roundtrip-mismatch', classes=classes)
    finally:
        harness.rmtree(d)
    nontrivial = (len(entries) >= 2
                  or any(needs_esc(x) for x in desc['entries']))
    return ok(nontrivial=nontrivial, classes=classes)


# --- through the tree loader, in a process with a non-UTF-8 locale -----------

LOCALE_ENV = {'LC_ALL': 'C', 'LANG': 'C', 'PYTHONUTF8': '0',
              'PYTHONCOERCECLOCALE': '0', 'PYTHONHASHSEED': '0'}


def strat_locale(tier):
    return st.fixed_dictionaries({
        'entries': st.lists(entry_desc(surrogates=False), min_size=1,
                            max_size=6),
        'fmts': st.lists(st.sampled_from(['', 'gz', 'bz2', 'lzma', 'xz']),
                         min_size=2, max_size=3, unique=True),
    })


def run_locale(desc):
    import json
    import subprocess
    import sys
    try:
        entries = [build_entry(d) for d in desc['entries']]
    except (OverflowError, ValueError):
        return skip('timestamp-out-of-range')
    m = ManifestFile()
    m.entries = list(entries)
    ref = io.StringIO()
    m.dump(ref, sign_openpgp=False)
    want_text = ref.getvalue()
    want = [list(ekey(e)) for e in entries]
    d = harness.fresh_dir('c08l')
    try:
        job = {'repo': harness.REPO, 'dir': d, 'fmts': desc['fmts'],
               'entries': desc['entries']}
        env = {k: v for k, v in os.environ.items()
               if not k.startswith('LC_') and k not in ('LANG', 'LANGUAGE')}
        env.update(LOCALE_ENV)
        p = subprocess.run(
            [sys.executable, os.path.join(harness.LIB, 'locale_child.py')],
            input=json.dumps(job).encode('ascii'), capture_output=True,
            env=env)
        if p.returncode != 0:
            raise RuntimeError('locale child failed: '
                               + p.stderr.decode('utf8', 'replace')[-2000:])
        out = json.loads(p.stdout.decode('ascii'))
        nonascii = any(ord(c) > 127 for c in want_text)
        classes = ['child-encoding:' + out['encoding'],
                   'non-ascii' if nonascii else 'ascii-only']
        if out['encoding'].lower().replace('-', '') in ('utf8',):
            return skip('child-locale-is-utf8')
        for res in out['results']:
            fmt = res['fmt'] or 'plain'
            classes.append('fmt:' + fmt)
            what = (f'{fmt} Manifest with entries {want!r} saved and '
                    f'reloaded by ManifestRecursiveLoader in a process whose '
                    f'locale encoding is {out["encoding"]}')
            if 'error' in res:
                return violation(f'{what}: {res["error"]}',
                                 sig='locale:error', classes=classes)
            try:
                ondisk = R.decompress(bytes.fromhex(res['raw']),
                                      res['fmt']).decode('utf8')
            except Exception as e:
                return violation(f'{what}: the file is not UTF-8 text: {e!r}',
                                 sig='locale:file-not-utf8', classes=classes)
            if ondisk != want_text:
                return violation(
                    f'{what}: the file holds {ondisk!r}, expected '
                    f'{want_text!r}', sig='locale:file-text-differs',
                    classes=classes)
            back = [[tuple(y) if isinstance(y, list) else y for y in x]
                    for x in res['back']]
            exp = [[tuple(tuple(z) for z in y) if isinstance(y, tuple) else y
                    for y in x] for x in want]
            back = [[tuple(tuple(z) for z in y) if isinstance(y, tuple)
                     else y for y in x] for x in back]
            if back != exp:
                return violation(f'{what}: loads back as {back!r}',
                                 sig='locale:roundtrip-mismatch',
                                 classes=classes)
    finally:
        harness.rmtree(d)
    return ok(nontrivial=nonascii, classes=classes)


# --- canonical fixed point ---------------------------------------------------

# single lines around what the reader and the writer may see differently
EDGE_LINES = [
    'DIST a\\x2Fb 1 MD5 00', 'DIST a\\u002fb 1', 'DIST \\x2Fabs 1',
    'DIST a\\U0000002Fb 0 SHA1 11', 'DATA \\x2Fabs 1', 'DATA a\\x2Fb 1',
    'IGNORE a\\x2F', 'IGNORE a/', 'IGNORE a//', 'IGNORE \\x2F',
    'DATA a\\x5Cx41 0', 'DATA \\x5C 0', 'MANIFEST a\\x2FManifest 0',
    'AUX \\x2Fa 0', 'AUX files\\x2Fa 0', 'DATA a\\x20 0',
    'DATA \\x20 0', 'DATA a\\x0A 0', 'TIMESTAMP 2020-01-01T00:00:00Z x',
    'DATA \\U0010FFFF 0', 'DATA \\ud83d\\ude00 0', 'DIST .. 0',
    'DIST . 0', 'DATA . 0', 'DATA a/../b 0', 'DATA ./a 0', 'DATA a/. 0',
    # 20-character near-misses of the timestamp format
    'TIMESTAMP 2017-10-22T18+06:41Z', 'TIMESTAMP 2017-10-22T18:06.41Z',
    'TIMESTAMP 2017-10-22T180641.5Z', 'TIMESTAMP 2017-10-22 18:06:41Z',
    'TIMESTAMP 2017-10-22T18:06:41z', 'TIMESTAMP 2017-W43-7T18:06:4Z',
    'TIMESTAMP 20171022T18:06:41.0Z', 'TIMESTAMP 2017-10-22T18:06:41Z',
    'TIMESTAMP 2017-1-2T3:4:5Z', 'TIMESTAMP 2017-10-22T24:00:00Z',
]


@st.composite
def edge_text(draw):
    lines = draw(st.lists(st.sampled_from(EDGE_LINES), min_size=1,
                          max_size=2))
    if draw(st.booleans()):
        lines.insert(draw(st.integers(0, len(lines))), 'DATA plain 1 MD5 aa')
    return ''.join(ln + '\n' for ln in lines)


def strat_fixedpoint(tier):
    return st.one_of(c09.grammar_text(), c09.grammar_text(),
                     c09.mutated_text(), edge_text()).map(
        lambda t: {'text': t})


def run_fixedpoint(desc):
    t0 = desc['text']
    m = ManifestFile()
    try:
        m.load(io.StringIO(t0), verify_openpgp=False)
    except Exception:
        return ok(classes=('rejected',))     # C09's subject
    if R.BEGIN_SIGNED in t0.split('\n'):
        return ok(classes=('signed-framework',), dontcare=True)
    e0 = [ekey(e) for e in m.entries]
    out = io.StringIO()
    try:
        m.dump(out, sign_openpgp=False)
    except Exception as e:
        return violation(
            f'accepted text {t0!r} cannot be written back\n'
            + buckets.describe(e), sig='dump-failed:' + buckets.signature(e))
    t1 = out.getvalue()
    m1 = ManifestFile()
    try:
        m1.load(io.StringIO(t1), verify_openpgp=False)
    except Exception as e:
        return violation(
            f'accepted text {t0!r} is written as {t1!r}, which is rejected: '
            f'{e!r}', sig='rewrite-rejected')
    e1 = [ekey(e) for e in m1.entries]
    if e1 != e0:
        return violation(
            f'accepted text {t0!r} ({e0!r}) is written as {t1!r} which loads '
            f'as {e1!r}', sig='rewrite-changes-entries')
    out2 = io.StringIO()
    m1.dump(out2, sign_openpgp=False)
    if out2.getvalue() != t1:
        return violation(
            f'not a fixed point: {t1!r} -> {out2.getvalue()!r}',
            sig='not-fixed-point')
    noncanon = t1 != t0
    return ok(nontrivial=(noncanon or len(e0) >= 2),
              classes=('accepted', 'noncanonical' if noncanon else 'canonical'))


PARTS = [
    Part('codepoints', run_codepoints, enumerate=enum_codepoints,
         exhaustive=True, budget={'quick': 120, 'thorough': 900}),
    Part('locale', run_locale, strategy=strat_locale,
         examples={'quick': 1200, 'thorough': 40000},
         budget={'quick': 40, 'thorough': 400}),
    Part('entries', run_entries, strategy=strat_entries,
         examples={'quick': 12000, 'thorough': 300000},
         budget={'quick': 40, 'thorough': 500}),
    Part('files', run_files, strategy=strat_files,
         examples={'quick': 3000, 'thorough': 60000},
         budget={'quick': 40, 'thorough': 500}),
    Part('fixedpoint', run_fixedpoint, strategy=strat_fixedpoint,
         examples={'quick': 12000, 'thorough': 300000},
         budget={'quick': 40, 'thorough': 500}),
]

LEVEL_TEXT = ('Round-trip and fixed-point oracles over generated entries and '
              'texts; the code-point space is enumerated completely in the '
              'thorough tier (BMP completely in quick). Shows absence of '
              'violations within these bounds only.')
LEVEL_NOTE = ('Trusted: io.StringIO / TextIOWrapper, the stdlib '
              'decompressors used to read back what gemato wrote, Hypothesis. '
              'Entry equality is compared field by field by the harness.')
TECHNIQUE = ('round-trip / fixed-point property-based testing (Hypothesis) '
             'plus exhaustive enumeration of all Unicode code points')
