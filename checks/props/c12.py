# C12 - Update is idempotent and, with sorting, canonical.

import os
import shutil

from hypothesis import strategies as st

import buckets
import fsnap
import gem
import harness
import layout
import mutate
import refmanifest as R
import shim
import treegen
import refscan
import updgen
from props import c03
from harness import Part, ok, violation, skip

PROPERTY = 'C12'
LEVEL = 'exploration'
RULE = ('(idempotence) C03\'s prior states and options without force: '
        'update+save twice with identical options (fresh loader / CLI '
        'process state each time); between the runs every Manifest file is '
        'snapshotted (bytes, mtime_ns, inode) and nothing may be created, '
        'deleted or rewritten by the second run. (canonical) sort on, <= 1 '
        'Manifest per directory, no duplicates: the same symbolic prior '
        'layout is rendered with two entry orders into two copies, the same '
        'edits make both stale, each copy is updated under a different '
        'directory enumeration order (os.scandir permutation owned by the '
        'harness) and gzip clock; every Manifest written must exist under '
        'the same name with equal bytes in both copies; also from-scratch '
        'create. Non-trivial: (a) first update wrote something; (b) >= 2 '
        'directories with >= 2 names each and differing permutations. '
        'Distinct by descriptor hash.')
ASSUMPTIONS = [
    'Which of several duplicate entries survives is order-dependent by '
    'design; duplicates and several Manifests per directory are excluded '
    'from the canonical-bytes part as the property states.',
    'os.walk obtains directory entries through os.scandir (the shim counts '
    'its calls; a case in which it was not reached makes no claim).',
]


def is_manifest_name(p):
    b = os.path.basename(p)
    return b.startswith('Manifest') or 'manifest' in b


# --- (a) idempotence ---------------------------------------------------------

@st.composite
def idem_case(draw):
    state = draw(updgen.prior_state(conflicts=False))
    o = draw(updgen.update_opts(state, allow_force=False))
    o['force'] = False
    return {'state': state, 'opts': o,
            'timestamp': draw(st.booleans())}


def strat_idem(tier):
    return idem_case()


def run_idem(desc):
    state, o = desc['state'], desc['opts']
    root = harness.fresh_dir('c12a')
    try:
        updgen.build_prior(state, root)
        if not os.path.isdir(os.path.join(root, o['target'])):
            return skip('target-vanished')
        create = state['mode'] == 'none'
        extra = ['-t'] if (desc['timestamp'] and o['api'] == 'cli'
                           and not o['target']) else []
        classes = list(state['tags']) + ['api:' + o['api']]
        if extra:
            classes.append('cli-timestamp')
        before = fsnap.snapshot(root)
        trigger = c03.dedup_trigger_paths(root, True)
        oc = updgen.run_update(root, o, create=create, extra_cli=extra)
        if oc.kind != 'return':
            return ok(classes=classes + ['first-update-failed:' + oc.kind])
        mid = fsnap.snapshot(root)
        # the known C03 defect leaves a stale duplicate behind, which the
        # second run then refreshes
        trig_manifests = set()
        for mset in c03.dedup_trigger_paths(root, True).values():
            trig_manifests |= mset
        for mset in trigger.values():
            trig_manifests |= mset

        def explained(p):
            # a Manifest holding the stale duplicate, or a Manifest above it
            # (whose MANIFEST entry follows)
            return any(refscan.comp_prefix(refscan.dirname(p),
                                           refscan.dirname(t))
                       for t in trig_manifests)
        known_stale = bool(trig_manifests)
        wrote = not fsnap.is_empty(fsnap.diff(before, mid))
        oc2 = updgen.run_update(root, o, create=False, extra_cli=extra)
        if oc2.kind != 'return':
            if oc2.kind in ('gemato', 'mismatch', 'incompatible'):
                return ok(classes=classes + ['second-update-gemato-error'])
            return violation(
                f'second identical update failed: {oc2.describe()}',
                sig='second-update-failed:' + buckets.signature(oc2.exc),
                classes=classes)
        after = fsnap.snapshot(root)
        d = fsnap.diff(mid, after)
        if not fsnap.is_empty(d):
            return violation(
                f'second update of the unchanged tree (options {o!r}) '
                f'rewrote: created {d["created"]} deleted {d["deleted"]} '
                f'modified {d["modified"]} touched {d["touched"]}',
                sig=(c03.KNOWN_DEDUP if known_stale and all(
                    is_manifest_name(p) and explained(p)
                    for p in fsnap.changed_paths(d))
                    else 'not-idempotent:' + (
                    'content' if d['created'] or d['deleted'] or d['modified']
                    else 'rewrite-same-bytes')), classes=classes)
        return ok(nontrivial=wrote, classes=classes)
    finally:
        harness.rmtree(root)


# --- (b) canonical bytes -----------------------------------------------------

@st.composite
def canon_case(draw):
    spec = draw(treegen.tree_spec(max_dirs=5, max_files=8, fifos=False,
                                  dangling=False, dir_links=True))
    mode = draw(st.sampled_from(['layout', 'layout', 'layout', 'none']))
    state = {'tree': spec, 'mode': mode, 'ignores': []}
    lay = None
    if mode == 'layout':
        lay = draw(layout.layout(spec, duplicates=False, lies=False,
                                 second_manifest=False, conflicts=False,
                                 sub_prob=(1, 2)))
        # hidden-but-listed files could collide with nothing; keep them
        state['ignores'] = [e['path'] for m in lay['manifests']
                            for e in m['entries'] if e['tag'] == 'IGNORE']
    edits = draw(updgen.edits(state, max_ops=4, min_ops=0))
    o = draw(updgen.update_opts(state, allow_subdir=False, allow_cli=False))
    o['sort'] = True
    o['force'] = draw(st.booleans())
    s1 = draw(st.integers(0, 10 ** 6))
    s2 = draw(st.integers(0, 10 ** 6))
    p1 = draw(st.sampled_from(['sorted', 'reversed', 'a', 'b', 'c']))
    p2 = draw(st.sampled_from(['sorted', 'reversed', 'x', 'y', 'z']))
    d = {'tree': spec, 'mode': mode, 'edits': edits, 'opts': o,
         'perm': [p1, p2], 'tags': lay['tags'] if lay else ['no-manifest']}
    if lay:
        d['m1'] = layout.render(lay, order_seed=s1)
        d['m2'] = layout.render(lay, order_seed=s2)
    return d


def strat_canon(tier):
    return canon_case()


def manifest_files(root):
    out = {}
    for dirpath, dirnames, filenames in os.walk(root):
        for fn in filenames:
            if is_manifest_name(fn):
                full = os.path.join(dirpath, fn)
                with open(full, 'rb') as f:
                    out[os.path.relpath(full, root)] = f.read()
    return out


def run_canon(desc):
    base = harness.fresh_dir('c12b')
    try:
        o = desc['opts']
        results = []
        snaps = []
        calls = []
        for i in (0, 1):
            root = os.path.join(base, f'copy{i}')
            os.mkdir(root)
            treegen.materialize(desc['tree'], root)
            if desc['mode'] == 'layout':
                layout.write_manifests(desc['m1' if i == 0 else 'm2'], root)
            mutate.apply_ops(root, desc['edits'])
            before = fsnap.snapshot(root)
            with shim.ScandirOrder(desc['perm'][i]) as sh, \
                    shim.gzip_clock(1_600_000_000 + 86400 * i):
                oc = updgen.run_update(root, o,
                                       create=(desc['mode'] == 'none'))
            calls.append(sh.calls)
            results.append(oc)
            after = fsnap.snapshot(root)
            snaps.append(fsnap.diff(before, after))
        classes = list(desc['tags'])
        if any(c == 0 for c in calls):
            return skip('scandir-shim-not-reached')
        kinds = [r.kind for r in results]
        if kinds[0] != kinds[1]:
            return violation(
                f'the two copies end differently: {results[0]!r} vs '
                f'{results[1]!r}', sig='outcome-depends-on-order',
                classes=classes)
        if kinds[0] != 'return':
            return ok(classes=classes + ['update-failed:' + kinds[0]])
        m0 = manifest_files(os.path.join(base, 'copy0'))
        m1 = manifest_files(os.path.join(base, 'copy1'))
        w0 = set(fsnap.changed_paths(snaps[0]))
        w1 = set(fsnap.changed_paths(snaps[1]))
        nonman = [p for p in (w0 | w1) if not is_manifest_name(p)]
        if nonman:
            return violation(f'update touched non-Manifest files {nonman}',
                             sig='non-manifest-touched', classes=classes)
        # a Manifest's bytes are determined only if every Manifest it
        # references (transitively) was rewritten as well
        sc = refscan.load_all(os.path.join(base, 'copy0'))
        kids = {}
        for child, refs in sc.parents.items():
            for parent, e in refs:
                kids.setdefault(parent, set()).add(child)

        def determined(p, seen=()):
            if p not in w0 or p not in w1:
                return False
            return all(c in seen or determined(c, seen + (p,))
                       for c in kids.get(p, ()))
        for p in sorted(w0 | w1):
            in0, in1 = p in m0, p in m1
            if in0 != in1:
                return violation(
                    f'Manifest {p!r} exists in one copy only after the '
                    f'update (enumeration orders {desc["perm"]})',
                    sig='manifest-set-depends-on-order', classes=classes)
            if (p in w0) != (p in w1):
                return violation(
                    f'Manifest {p!r} was rewritten in one copy only '
                    f'(orders {desc["perm"]})',
                    sig='written-set-depends-on-order', classes=classes)
            if in0 and m0[p] != m1[p] and determined(p):
                fmt = R.compression_of(p)
                try:
                    t0 = R.decompress(m0[p], fmt).decode('utf8')
                    t1 = R.decompress(m1[p], fmt).decode('utf8')
                except Exception:
                    t0, t1 = repr(m0[p][:80]), repr(m1[p][:80])
                why = ('entries' if t0 != t1 else 'container-bytes')
                return violation(
                    f'Manifest {p!r} differs between enumeration orders '
                    f'{desc["perm"]}: {t0!r} vs {t1!r}',
                    sig='bytes-depend-on-order:' + why, classes=classes)
        vis = treegen.visible(desc['tree'])
        perdir = {}
        for p in vis:
            perdir[layout.dirname(p)] = perdir.get(layout.dirname(p), 0) + 1
        rich = sum(1 for n in perdir.values() if n >= 2)
        nontrivial = (rich >= 2 and desc['perm'][0] != desc['perm'][1]
                      and bool(w0))
        return ok(nontrivial=nontrivial, classes=classes)
    finally:
        harness.rmtree(base)


# --- (a') idempotence with the ebuild profiles -------------------------------

@st.composite
def prof_case(draw):
    import repogen
    r = draw(repogen.repo())
    return {'repo': r,
            'profile': draw(st.sampled_from(['ebuild', 'old-ebuild'])),
            'hashes': draw(st.sampled_from([None, None, 'MD5', 'SHA256'])),
            'watermark': draw(st.sampled_from([None, None, 0, 64, 1024])),
            'edits': draw(repogen.repo_edits(r, max_ops=3))}


def strat_prof(tier):
    return prof_case()


def run_prof(desc):
    import repogen
    root = harness.fresh_dir('c12p')
    try:
        repogen.materialize(desc['repo'], root)
        opts = ['-p', desc['profile']]
        if desc['hashes']:
            opts += ['--hashes', desc['hashes']]
        if desc['watermark'] is not None:
            opts += ['-c', str(desc['watermark'])]
        classes = ['profile:' + desc['profile']]
        oc, rec, _ = gem.cli(['create'] + opts + [root])
        if oc.kind != 'return' or oc.value != 0:
            return ok(classes=classes + ['create-failed'])
        steps = [('after create', [])]
        if desc['edits']:
            steps.append(('after edits + update', desc['edits']))
        for label, edits in steps:
            if edits:
                repogen.apply_edits(root, edits)
                oc, rec, _ = gem.cli(['update'] + opts + [root])
                if oc.kind != 'return' or oc.value != 0:
                    return ok(classes=classes + ['update-failed'])
            mid = fsnap.snapshot(root)
            oc, rec, _ = gem.cli(['update'] + opts + [root])
            if oc.kind != 'return' or oc.value != 0:
                return violation(
                    f'{label}: a second `gemato update {" ".join(opts)}` on '
                    f'the unchanged repository fails: {oc.describe()} '
                    f'{[r.getMessage()[:150] for r in gem.error_records(rec)]}',
                    sig='second-update-failed:' + (buckets.signature(oc.exc)
                                                   if oc.exc else 'exit'),
                    classes=classes)
            d = fsnap.diff(mid, fsnap.snapshot(root))
            if not fsnap.is_empty(d):
                return violation(
                    f'{label}: `gemato update {" ".join(opts)}` on the '
                    f'unchanged repository rewrote: {d!r}',
                    sig='not-idempotent:profile', classes=classes)
        return ok(nontrivial=True, classes=classes)
    finally:
        harness.rmtree(root)


PARTS = [
    Part('idempotence', run_idem, strategy=strat_idem,
         examples={'quick': 8000, 'thorough': 150000},
         budget={'quick': 45, 'thorough': 600}),
    Part('idempotence-profiles', run_prof, strategy=strat_prof,
         examples={'quick': 2500, 'thorough': 40000},
         budget={'quick': 45, 'thorough': 600}),
    Part('canonical', run_canon, strategy=strat_canon,
         examples={'quick': 6000, 'thorough': 120000},
         budget={'quick': 45, 'thorough': 600}),
]

LEVEL_TEXT = ('Metamorphic checks over generated trees and prior states: '
              'second run rewrites nothing (full lstat+content snapshot); '
              'written bytes equal across sampled enumeration orders and '
              'prior entry orders.')
LEVEL_NOTE = ('Trusted: the scandir permutation shim (self-checked by call '
              'count), fsnap. Permutations are sampled (5x5 orders, random '
              'entry shuffles), not exhaustive.')
TECHNIQUE = ('metamorphic property-based testing (Hypothesis) with a '
             'harness-owned directory enumeration order')
