# C10 - Update never touches what it does not own.

import os

from hypothesis import strategies as st

import buckets
import fsnap
import gem
import harness
import mutate
import refmanifest as R
import refscan
import refverify
import treegen
import updgen
from harness import Part, ok, violation, skip

PROPERTY = 'C10'
LEVEL = 'exploration'
RULE = ('Hypothesis histories (1..10 steps) over C03\'s trees and prior '
        'Manifest states (with DIST, IGNORE, TIMESTAMP, every file tag). '
        'Steps: file edits (snapshot re-based); assert_directory_verifies '
        '(any sub-path, raising or keep-going handler); verify_path / '
        'assert_path_verifies / find_path_entry / find_dist_entry / '
        'find_timestamp; update_entries_for_directory or '
        'update_entry_for_path with the loader then discarded; update+save '
        '(library or CLI incl. -t, -f, -c/-C, sub-directory); `gemato '
        'verify`; failing updates (a listed path turned into a directory, '
        'a symlink loop, an injected OSError at the k-th filesystem call). '
        'Invariant after every step but a successful save: full lstat + '
        'content snapshot of the tree unchanged. After a successful save: '
        'only Manifest files created/deleted/changed; DIST multiset per '
        'logical Manifest, the set of IGNOREd paths, TIMESTAMPs (unless '
        'refresh was asked), tags of surviving entries, and every entry '
        'outside an updated sub-directory (except MANIFEST entries of '
        'rewritten Manifests) unchanged. Non-trivial: history has a save '
        'after an edit, or a failing/discarded update; distinct by '
        'descriptor hash.')
ASSUMPTIONS = [
    'A Manifest file is one named Manifest* / *manifest* or referenced by a '
    'MANIFEST entry before or after the step.',
    'Injected faults are raised from os.open/os.stat/os.scandir/open as seen '
    'from Python.',
]


def is_manifest_name(p):
    b = os.path.basename(p)
    return b.startswith('Manifest') or 'manifest' in b


@st.composite
def history(draw):
    state = draw(updgen.prior_state(junk=False, conflicts=False))
    dirs = updgen.updatable_dirs(state)
    vis = treegen.visible(state['tree'])
    paths = sorted(p for p in vis if not treegen.is_hidden(p)) or ['nofile']
    steps = []
    for _ in range(draw(st.integers(1, 10))):
        k = draw(st.sampled_from(
            ['edit', 'verify', 'verify', 'lookup', 'lookup',
             'update-discard', 'update-entry', 'update-save', 'update-save',
             'cli-verify', 'fail-dir', 'fail-loop', 'fail-fault',
             'fail-sign']))
        s = {'k': k}
        if k == 'edit':
            s['ops'] = draw(updgen.edits(state, max_ops=3, min_ops=1))
        elif k in ('verify', 'cli-verify'):
            s['sub'] = draw(st.sampled_from(dirs))
            s['keepgoing'] = draw(st.booleans())
        elif k == 'lookup':
            s['path'] = draw(st.sampled_from(paths))
            s['dist'] = draw(st.sampled_from(['foo-1.tar.gz', 'a', 'nope']))
        elif k in ('update-discard', 'update-save', 'fail-fault',
                   'fail-sign'):
            s['opts'] = draw(updgen.update_opts(
                state, allow_cli=(k != 'fail-sign')))
            s['timestamp'] = draw(st.integers(0, 3)) == 0
            if k == 'update-save':
                # an ebuild profile on an existing tree changes where new
                # things go, not what is there already
                s['profile'] = draw(st.sampled_from(
                    [None, None, None, 'ebuild', 'old-ebuild']))
                if any(n['t'] == 'l' and n.get('k') == 'd'
                       for n in state['tree']['nodes']):
                    # (a profile puts new Manifests into directories that a
                    # directory symlink gives a second name: every later
                    # rename then shows up under the alias as well)
                    s['profile'] = None
            if k == 'update-save' and draw(st.integers(0, 1)) == 0:
                # the loader that saves has verified (part of) the tree first
                s['opts']['api'] = 'lib'
                s['opts'].pop('spelling', None)
                s['preverify'] = draw(st.sampled_from(dirs))
                if len(dirs) > 1 and state['mode'] != 'none' \
                        and draw(st.booleans()):
                    # ... and then updates one sub-directory only
                    s['opts']['target'] = draw(st.sampled_from(dirs[1:]))
            if k == 'fail-fault':
                s['nth'] = draw(st.integers(0, 40))
                s['errno'] = draw(st.sampled_from([5, 13, 12, 24]))
        elif k == 'update-entry':
            s['path'] = draw(st.sampled_from(paths))
            s['hashes'] = draw(st.sampled_from([['MD5'], ['SHA1', 'SHA256']]))
            s['save'] = draw(st.booleans())
        elif k == 'fail-dir':
            s['path'] = draw(st.sampled_from(paths))
            s['opts'] = draw(updgen.update_opts(state, allow_subdir=False))
        elif k == 'fail-loop':
            s['dir'] = draw(st.sampled_from(dirs))
            s['opts'] = draw(updgen.update_opts(state, allow_subdir=False))
        steps.append(s)
    return {'state': state, 'steps': steps}


def strat(tier):
    return history()


# ---- manifest-level view ----------------------------------------------------

def manifest_view(root):
    """Parse every Manifest file that is reachable from the top or carries a
    Manifest-like name.  Returns dict logical path -> [Entry]."""
    out = {}
    reachable = set()
    try:
        sc = refscan.load_all(root)
        for mp, entries in sc.manifests.items():
            out[R.strip_compression(mp)] = (mp, entries)
            reachable.add(R.strip_compression(mp))
    except Exception:
        pass
    out['__reachable__'] = reachable
    for dirpath, dirnames, filenames in os.walk(root):
        for fn in filenames:
            if not is_manifest_name(fn):
                continue
            rel = os.path.relpath(os.path.join(dirpath, fn), root)
            lg = R.strip_compression(rel)
            if lg in out:
                continue
            try:
                out[lg] = (rel, R.parse_strict(R.read_manifest_file(
                    os.path.join(root, rel))))
            except Exception:
                continue
    return out


def lines(entries, tag):
    return sorted(e.to_line() for e in entries if e.tag == tag)


def check_save(root, before, after, view_b, view_a, step, what):
    d = fsnap.diff(before, after)
    changed = fsnap.changed_paths(d)
    reach_b = view_b.pop('__reachable__')
    reach_a = view_a.pop('__reachable__')
    referenced = set()
    for view in (view_b, view_a):
        for lg, (mp, entries) in view.items():
            mdir = refscan.dirname(mp)
            referenced.add(mp)
            for e in entries:
                if e.tag == 'MANIFEST':
                    referenced.add(os.path.normpath(
                        refscan.join(mdir, e.path)))
    alien = [p for p in changed
             if not is_manifest_name(p) and p not in referenced]
    if alien:
        return ('non-manifest-touched',
                f'{what} created/deleted/changed non-Manifest paths {alien} '
                f'(diff {d!r})')
    o = step['opts']
    target = o['target']
    cli_whole = (o['api'] == 'cli' and target == '')
    # logical Manifests must not vanish
    for lg in view_b:
        if lg not in view_a:
            ldir = os.path.join(root, refscan.dirname(lg))
            if os.path.realpath(ldir) != os.path.normpath(ldir):
                # a second name (through a directory symlink) of a Manifest
                # that was renamed under its real name
                continue
            return ('manifest-vanished', f'{what}: Manifest {lg!r} is gone')
    # DIST per logical Manifest
    for lg, (mp, eb) in view_b.items():
        if lg not in view_a:
            continue        # (an alias that went away, see above)
        ea = view_a[lg][1]
        if lines(eb, 'DIST') != lines(ea, 'DIST'):
            return ('dist-changed',
                    f'{what}: DIST entries of {lg!r} changed from '
                    f'{lines(eb, "DIST")} to {lines(ea, "DIST")}')
        tb, ta = lines(eb, 'TIMESTAMP'), lines(ea, 'TIMESTAMP')
        top_dir = refscan.dirname(lg) == ''
        may_refresh = cli_whole and top_dir and (
            step.get('timestamp') or tb)
        if tb != ta and not may_refresh:
            return ('timestamp-changed',
                    f'{what}: TIMESTAMP of {lg!r} changed from {tb} to {ta}')
        if may_refresh and not step.get('timestamp') and len(ta) != len(tb):
            return ('timestamp-count-changed',
                    f'{what}: TIMESTAMP entries of {lg!r}: {tb} -> {ta}')

    def ignore_set(view):
        s = set()
        for lg, (mp, entries) in view.items():
            mdir = refscan.dirname(mp)
            for e in entries:
                if e.tag == 'IGNORE':
                    s.add(os.path.normpath(refscan.join(mdir, e.path)))
        return s
    if ignore_set(view_b) != ignore_set(view_a):
        return ('ignore-changed',
                f'{what}: IGNOREd paths changed from '
                f'{sorted(ignore_set(view_b))} to '
                f'{sorted(ignore_set(view_a))}')

    def file_entries(view, everything=False):
        m = {}
        for lg, (mp, entries) in view.items():
            if not everything and lg not in (
                    reach_b if view is view_b else reach_a):
                # entries of a Manifest that was not in use do not count
                continue
            mdir = refscan.dirname(mp)
            for e in entries:
                if e.tag in ('DATA', 'MISC', 'EBUILD', 'AUX', 'MANIFEST'):
                    # (literal paths, as gemato takes them)
                    full = refscan.join(mdir, e.path)
                    m.setdefault(full, []).append((lg, e))
        return m
    fb, fa = file_entries(view_b), file_entries(view_a)
    # an unregistered Manifest may be adopted by the update: its entries
    # are existing entries as well
    fb_all = file_entries(view_b, everything=True)
    for full, lst in fa.items():
        if step.get('profile'):
            break       # entry types under an ebuild profile: C19's subject
        if full in fb and os.path.exists(os.path.join(root, full)):
            tags_b = {e.tag for lg, e in fb_all[full]}
            for lg, e in lst:
                if e.tag not in tags_b:
                    return ('tag-changed',
                            f'{what}: entry for {full!r} changed type from '
                            f'{sorted(tags_b)} to {e.tag}')
    if target:
        rewritten = {R.strip_compression(p) for p in changed}
        # (... also under the names a directory symlink gives them)
        real_rewritten = {R.strip_compression(os.path.realpath(
            os.path.join(root, p))) for p in changed}
        real_target = os.path.realpath(os.path.join(root, target))
        for full in set(fb) | set(fa):
            if refverify.comp_prefix(target, full):
                continue
            # (the same object reached through a directory symlink)
            rf = os.path.realpath(os.path.join(root, full))
            if rf == real_target or rf.startswith(real_target + os.sep):
                continue

            def sig(lst):
                out = []
                for lg, e in lst:
                    if e.tag == 'MANIFEST' and (
                            R.strip_compression(full) in rewritten
                            or R.strip_compression(os.path.realpath(
                                os.path.join(root, full)))
                            in real_rewritten):
                        continue
                    out.append((lg, e.tag, e.size,
                                tuple(sorted(e.checksums.items()))))
                return sorted(out)
            if sig(fb.get(full, [])) != sig(fa.get(full, [])):
                return ('out-of-scope-entry-changed',
                        f'{what}: update of {target!r} changed entries for '
                        f'{full!r} from {sig(fb.get(full, []))} to '
                        f'{sig(fa.get(full, []))}')
    return None


class FailingSigner:
    """OpenPGP backend whose signing operation fails."""

    def clear_sign_file(self, f, outf, keyid=None):
        from gemato.exceptions import OpenPGPSigningFailure
        outf.write('-----BEGIN PGP SIGNED MESSAGE-----\n')
        raise OpenPGPSigningFailure('gpg: signing failed: No secret key')

    def verify_file(self, f):
        raise AssertionError('not used')

    def close(self):
        pass


def run_case(desc):
    import shim
    state = desc['state']
    root = harness.fresh_dir('c10')
    try:
        updgen.build_prior(state, root)
        snap = fsnap.snapshot(root)
        classes = []
        edited = False
        nontrivial = False
        created = state['mode'] != 'none'
        for i, s in enumerate(desc['steps']):
            k = s['k']
            classes.append('step:' + k)
            what = f'step {i} ({k})'
            must_not_write = True
            if k == 'edit':
                mutate.apply_ops(root, s['ops'])
                snap = fsnap.snapshot(root)
                edited = True
                continue
            if not os.path.exists(os.path.join(root, 'Manifest')) and \
                    k not in ('update-save',):
                continue
            if k == 'verify':
                kw = {}
                if s['keepgoing']:
                    kw['fail_handler'] = lambda e: False
                if os.path.isdir(os.path.join(root, s['sub'])):
                    gem.verify_lib(root, s['sub'], **kw)
            elif k == 'cli-verify':
                p = os.path.join(root, s['sub']) if s['sub'] else root
                if os.path.isdir(p):
                    gem.cli(['verify'] + (['-k'] if s['keepgoing'] else [])
                            + [p])
            elif k == 'lookup':
                oc = gem.call(gem.loader, root)
                if oc.kind == 'return':
                    m = oc.value
                    gem.call(m.verify_path, s['path'])
                    gem.call(m.assert_path_verifies, s['path'])
                    gem.call(m.find_path_entry, s['path'])
                    gem.call(m.find_dist_entry, s['dist'],
                             refscan.dirname(s['path']))
                    gem.call(m.find_timestamp)
            elif k == 'update-entry':
                def run():
                    m = gem.loader(root, hashes=s['hashes'])
                    m.update_entry_for_path(s['path'])
                    if s.get('save'):
                        m.save_manifests()
                view_b = manifest_view(root) if s.get('save') else None
                oc = gem.call(run)
                nontrivial = True
                if s.get('save'):
                    # a single-path update that is saved: only the entries
                    # of that path (and the Manifest references above the
                    # rewritten Manifests) are its business
                    after = fsnap.snapshot(root)
                    if oc.kind == 'return':
                        view_a = manifest_view(root)
                        bad = check_save(
                            root, snap, after, view_b, view_a,
                            {'opts': {'target': s['path'], 'api': 'lib'},
                             'timestamp': False},
                            f'{what} update_entry_for_path({s["path"]!r}) '
                            f'+ save')
                        if bad:
                            return violation(bad[1], sig=bad[0],
                                             classes=classes)
                    else:
                        d = fsnap.diff(snap, after)
                        alien = [p for p in fsnap.changed_paths(d)
                                 if not is_manifest_name(p)]
                        if alien:
                            return violation(
                                f'{what}: failed single-path update touched '
                                f'{alien}', sig='non-manifest-touched',
                                classes=classes)
                    classes.append('single-path-save')
                    snap = after
                    continue
            elif k == 'update-discard':
                o = dict(s['opts'], api='lib')
                if os.path.isdir(os.path.join(root, o['target'])):
                    updgen.run_update(root, o, save=False)
                    nontrivial = True
            elif k == 'fail-sign':
                # the save fails for a reason that is not an I/O error: the
                # OpenPGP backend cannot sign the top-level Manifest
                o = s['opts']
                if not os.path.isdir(os.path.join(root, o['target'])):
                    continue
                oc = updgen.run_update(
                    root, o, loader_kwargs={'sign_openpgp': True,
                                            'openpgp_env': FailingSigner()})
                after = fsnap.snapshot(root)
                if oc.kind != 'return':
                    d = fsnap.diff(snap, after)
                    alien = [p for p in fsnap.changed_paths(d)
                             if not is_manifest_name(p)]
                    if alien:
                        return violation(
                            f'{what}: update whose save failed ({oc!r}) '
                            f'touched non-Manifest paths {alien}',
                            sig='non-manifest-touched:failed-signing',
                            classes=classes)
                    nontrivial = True
                snap = after
                continue
            elif k in ('fail-dir', 'fail-loop', 'fail-fault'):
                if k == 'fail-dir':
                    mutate.apply_ops(root, [{'op': 'retype', 'p': s['path'],
                                             'to': 'dir', 'child': 'x'}])
                elif k == 'fail-loop':
                    mutate.apply_ops(root, [{
                        'op': 'symlink',
                        'p': (s['dir'] + '/' if s['dir'] else '') + 'loop!',
                        'target': '.'}])
                snap = fsnap.snapshot(root)
                o = s['opts']
                if not os.path.isdir(os.path.join(root, o['target'])):
                    continue
                if k == 'fail-fault':
                    with shim.FaultInjector(root, nth=s['nth'],
                                            err=s['errno']) as fi:
                        oc = updgen.run_update(root, o)
                    fired = fi.fired
                    classes.append('fault-fired' if fired else
                                   'fault-not-fired')
                else:
                    oc = updgen.run_update(root, o)
                    fired = False
                if oc.kind == 'return':
                    if k == 'fail-fault' and fired:
                        # a fault during the scan phase must abort the update
                        if fi.fired_phase == 'scan':
                            return violation(
                                f'{what}: update returned normally although '
                                f'{fi.fired_call} failed with errno '
                                f'{s["errno"]}', sig='fault-swallowed',
                                classes=classes)
                    must_not_write = False      # it was a successful save
                    view_b = None
                else:
                    nontrivial = True
                    if k == 'fail-fault' and fired \
                            and fi.fired_phase != 'scan':
                        must_not_write = False   # failed while saving
                        snap = fsnap.snapshot(root)
                if not must_not_write:
                    snap = fsnap.snapshot(root)
                    continue
            elif k == 'update-save':
                o = s['opts']
                if not os.path.isdir(os.path.join(root, o['target'])):
                    continue
                create = not os.path.exists(os.path.join(root, 'Manifest'))
                if create and o['target']:
                    continue
                view_b = manifest_view(root)
                extra = ['-t'] if (s['timestamp'] and o['api'] == 'cli'
                                   and not o['target']) else []
                s2 = dict(s, timestamp=bool(extra))
                pre = None
                if s.get('preverify') is not None and not create:
                    classes.append('verify-then-update-on-one-loader')

                    def pre(m, sub=s['preverify']):
                        try:
                            m.assert_directory_verifies(
                                sub, fail_handler=lambda e: False)
                        except Exception:
                            pass
                if s.get('profile') and not create:
                    classes.append('profile:' + s['profile'])
                oc = updgen.run_update(root, o, create=create,
                                       extra_cli=extra, pre=pre,
                                       profile=(s.get('profile')
                                                if not create else None))
                if oc.kind == 'return':
                    after = fsnap.snapshot(root)
                    view_a = manifest_view(root)
                    bad = check_save(root, snap, after, view_b, view_a, s2,
                                     f'{what} {o!r}')
                    if bad:
                        return violation(bad[1], sig=bad[0], classes=classes)
                    snap = after
                    if edited:
                        nontrivial = True
                    continue
                # a failed update+save: if it failed before saving nothing
                # may have been written; we cannot tell the phase from the
                # outside, so only non-Manifest files are compared
                after = fsnap.snapshot(root)
                d = fsnap.diff(snap, after)
                alien = [p for p in fsnap.changed_paths(d)
                         if not is_manifest_name(p)]
                if alien:
                    return violation(
                        f'{what}: failed update ({oc!r}) touched '
                        f'non-Manifest paths {alien}',
                        sig='non-manifest-touched', classes=classes)
                snap = after
                nontrivial = True
                continue
            # read-only / discarded / failed-in-scan steps
            after = fsnap.snapshot(root)
            d = fsnap.diff(snap, after)
            if not fsnap.is_empty(d):
                return violation(
                    f'{what} {s!r} wrote to the tree: {d!r}',
                    sig='write-without-save:' + k, classes=classes)
        return ok(nontrivial=nontrivial, classes=sorted(set(classes)))
    finally:
        harness.rmtree(root)


PARTS = [
    Part('histories', run_case, strategy=strat,
         examples={'quick': 20000, 'thorough': 200000},
         budget={'quick': 60, 'thorough': 900}),
]

LEVEL_TEXT = ('Generated operation histories with a full-tree snapshot '
              'invariant after every step and entry-level preservation '
              'checks after every successful save.')
LEVEL_NOTE = ('Trusted: fsnap (lstat + sha1 of every file), refmanifest for '
              'comparing entries, the fault shim (records whether and where '
              'it fired).')
TECHNIQUE = ('stateful property-based testing (Hypothesis-generated '
             'operation histories) with snapshot invariants and fault '
             'injection')
