# C04 - Only the OpenPGP-signed content of a signed Manifest is ever used.

import io
import itertools
import os
import re

from hypothesis import strategies as st

import buckets
import gem
import gpgfix
import harness
import refmanifest as R
from harness import Part, ok, violation, skip

from gemato.exceptions import (ManifestSyntaxError, ManifestUnsignedData,
                               GematoException)
from gemato.manifest import ManifestFile
from gemato.openpgp import IsolatedGPGEnvironment

PROPERTY = 'C04'
LEVEL = 'exploration'
RULE = ('(sequences) every sequence of length 0..6 (quick) / 0..7 '
        '(thorough) over the line classes S signed-message header, G '
        'signature header, N signature end, O other armor line, B empty line, '
        'W whitespace-only line, H '
        'armor-header/base64 text, E valid entry, D dash-escaped entry, A '
        'dash-escaped armor line, J junk; with and without final newline; '
        'verification on (recording stub backend) and off; entries carry '
        'their line index. Reference: regular expressions over the class '
        'string (three-valued) + two safety invariants on every accepted '
        'input (every entry comes from a body line; signed flag only after '
        'the stub was handed exactly the S..N lines). (gpg) Manifests '
        'genuinely signed with gpg, then mutated (insert/delete/duplicate/'
        'move lines, whitespace, CR/LF, added/removed dash escapes, '
        'injected armor headers, prepended/appended text, concatenated and '
        'nested messages) and loaded from a file with a real isolated gpg: '
        'if loading succeeds the handed text is the S..N span, everything '
        'outside is blank, and the harness\' own `gpg --decrypt` of exactly '
        'that text yields the same entries. (reload) a signed Manifest file is '
        'loaded, changed in place (same size, mtime kept or not) and loaded '
        'again in the same process with the same environment; ManifestFile '
        'instances are re-used across loads. Non-trivial: sequence contains '
        'S or >= 2 distinct classes; (gpg) mutated text differs from the '
        'original. Distinct: sequences by construction, gpg cases by '
        'descriptor hash.')
ASSUMPTIONS = [
    'The sequence part uses a stub backend that accepts everything: it '
    'decides what is handed over and parsed, not cryptographic validity.',
    'Armor-header sections that are empty or hold non "Key: value" lines, '
    'signature blocks holding entry-like lines, and a missing final newline '
    'after an armor line are DONT-CARE for the verdict (safety invariants '
    'still apply).',
    'gpg (2.2) is the OpenPGP implementation of the differential part.',
]

S = '-----BEGIN PGP SIGNED MESSAGE-----'
G = '-----BEGIN PGP SIGNATURE-----'
N = '-----END PGP SIGNATURE-----'
CLASSES = 'SGNOBWHEDAJX'


def line_for(cls, i):
    if cls == 'S':
        return S
    if cls == 'G':
        return G
    if cls == 'N':
        return N
    if cls == 'O':
        return '-----BEGIN PGP MESSAGE-----'
    if cls == 'B':
        return ''
    if cls == 'W':
        return '  ' if i % 2 == 0 else '\t'
    if cls == 'H':
        return 'Hash: SHA256' if i % 2 == 0 else 'iQEzBAEBCAAdFiEEabcdef=='
    if cls == 'E':
        return f'DATA e{i} {i}'
    if cls == 'D':
        return f'- DATA d{i} {i}'
    if cls == 'A':
        # dash-escaped armor line (cleartext that merely looks like armor)
        return '- ' + (G, S, N)[i % 3]
    if cls == 'X':
        # doubly dash-escaped: the cleartext line is "- DATA ...", junk
        return f'- - DATA x{i} {i}'
    return 'garbage line here'


PLAIN_RE = re.compile(r'^[BE]*$')
SIGNED_RE = re.compile(
    r'^(?P<pre>B*)S(?P<hdr>[HJEDAX]*)B(?P<body>[BED]*)G(?P<sig>[HJEDABX]*)N'
    r'(?P<post>B*)$')
SIGNED_STRICT_RE = re.compile(r'^B*SH+B[BED]*G[HB]*NB*$')
# pins for the rejection class
ENTRY_BEFORE_SIGNED_RE = re.compile(
    r'^[BE]*E[BE]*SH+B[BED]*G[HB]*NB*$')
TRAILING_DATA_RE = re.compile(
    r'^B*SH+B[BED]*G[HB]*NB*(?P<tail>[EDJHAX][BEDJHAX]*)$')
TRUNCATED_RE = re.compile(r'^B*S(H+(B([BED]*(G[HB]*)?)?)?)?$')
MISPLACED_RE = re.compile(r'^[BE]*[GNO][BE]*$')


PRIME_TEXT = (S + '\nHash: SHA256\n\nDATA primed 0\n' + G + '\n\nabc\n' + N
              + '\n')


class Stub:
    def __init__(self):
        self.handed = []

    def verify_file(self, f):
        self.handed.append(f.read())
        return 'SIGDATA'


def expected_for(seq):
    """Returns (verdict, allowed exception names, entries index list, span)"""
    seq = seq.replace('W', 'B')     # whitespace-only lines are blank lines
    m = SIGNED_RE.match(seq)
    if PLAIN_RE.match(seq):
        return 'accept', None, [i for i, c in enumerate(seq) if c == 'E'], None
    if m:
        start = len(m.group('pre'))
        b0 = m.start('body')
        b1 = m.end('body')
        end = m.start('post')
        ents = [i for i in range(b0, b1) if seq[i] in 'ED']
        v = 'accept' if SIGNED_STRICT_RE.match(seq) else 'dontcare'
        return v, None, ents, (start, end)
    if ENTRY_BEFORE_SIGNED_RE.match(seq) or TRAILING_DATA_RE.match(seq):
        return 'reject', {'ManifestUnsignedData'}, None, None
    if TRUNCATED_RE.match(seq) or MISPLACED_RE.match(seq):
        return 'reject', {'ManifestSyntaxError'}, None, None
    return 'reject', {'ManifestSyntaxError', 'ManifestUnsignedData'}, None, \
        None


def enum_sequences(tier, shard, nshards):
    maxlen = 6 if tier == 'quick' else 7
    i = 0
    for n in range(0, maxlen + 1):
        for seq in itertools.product(CLASSES, repeat=n):
            if i % nshards == shard:
                yield {'seq': ''.join(seq)}
            i += 1


def run_sequence(desc):
    seq = desc['seq']
    lines = [line_for(c, i) for i, c in enumerate(seq)]
    verdict, allowed, ents, span = expected_for(seq)
    nontrivial = 'S' in seq or len(set(seq)) >= 2
    for final_nl in (True, False):
        if not lines and not final_nl:
            continue
        text = '\n'.join(lines) + ('\n' if final_nl and lines else '')
        armor_last = bool(seq) and seq[-1] in 'SGNO' and not final_nl
        for verify in (True, False):
            stub = Stub()
            m = ManifestFile()
            if verify != final_nl:
                # an instance that already holds a verified signed Manifest
                m.load(io.StringIO(PRIME_TEXT), verify_openpgp=True,
                       openpgp_env=Stub())
            try:
                m.load(io.StringIO(text), verify_openpgp=verify,
                       openpgp_env=stub)
                outcome = 'accept'
            except (ManifestSyntaxError, ManifestUnsignedData) as e:
                outcome = type(e).__name__
            except Exception as e:
                return violation(
                    f'class sequence {seq!r} (final newline {final_nl}, '
                    f'verify {verify}): unexpected exception\n'
                    + buckets.describe(e),
                    sig='exc:' + buckets.signature(e))
            what = (f'class sequence {seq!r} (final newline {final_nl}, '
                    f'verify_openpgp={verify}), text {text!r}')
            if outcome != 'accept' and m.openpgp_signed and not stub.handed:
                return violation(
                    f'{what}: rejected with {outcome}, yet the (re-used) '
                    f'ManifestFile still reports itself as signed',
                    sig='signed-flag-survives-rejected-load')
            if outcome == 'accept':
                # safety invariants, independent of the reference
                got = []
                for e in m.entries:
                    if e.tag != 'DATA' or e.path[0] not in 'edx':
                        return violation(f'{what}: unexpected entry '
                                         f'{e.tag} {e.path}',
                                         sig='foreign-entry')
                    got.append(int(e.path[1:]))
                    if e.path[0] == 'x':
                        return violation(
                            f'{what}: the doubly dash-escaped line '
                            f'{lines[int(e.path[1:])]!r} (cleartext "- DATA '
                            f'...", not an entry) was read as an entry',
                            sig='double-dash-unescaped')
                signed_shape = 'S' in seq
                if signed_shape:
                    fm = re.match(r'^B*S[^B]*B(?P<body>[^G]*)G',
                                  seq.replace('W', 'B'))
                    body = range(fm.start('body'), fm.end('body')) if fm \
                        else range(0)
                    outside = [i for i in got if i not in body]
                    if outside:
                        return violation(
                            f'{what}: entries from lines {outside} lie '
                            f'outside the signed body',
                            sig='entry-from-outside-signed-body')
                if m.openpgp_signed and not stub.handed:
                    return violation(
                        f'{what}: reported as signed without any '
                        f'verification', sig='signed-without-verification')
                if verify and signed_shape and not m.openpgp_signed:
                    return violation(
                        f'{what}: signed message accepted with verification '
                        f'on, but no signature was verified',
                        sig='accepted-signed-unverified')
                if not verify and (m.openpgp_signed or stub.handed):
                    return violation(
                        f'{what}: verification off but signed flag / backend '
                        f'call', sig='verified-although-off')
                if stub.handed and span is not None:
                    want = '\n'.join(lines[span[0]:span[1]]) + '\n'
                    if stub.handed != [want]:
                        return violation(
                            f'{what}: text handed to verification is '
                            f'{stub.handed!r}, the signed message is '
                            f'{want!r}', sig='handed-text-wrong')
            if verdict == 'dontcare' or armor_last:
                continue
            if verdict == 'accept':
                if outcome != 'accept':
                    return violation(f'{what}: well-formed but rejected '
                                     f'with {outcome}',
                                     sig='rejected-wellformed')
                if got != ents:
                    return violation(
                        f'{what}: entries from lines {got}, expected lines '
                        f'{ents}', sig='wrong-entries')
            else:
                if outcome == 'accept':
                    return violation(
                        f'{what}: malformed signed-message framework '
                        f'accepted with entries from lines {got}',
                        sig='accepted-malformed-framework')
                if outcome not in allowed:
                    return violation(
                        f'{what}: rejected with {outcome}, expected '
                        f'{sorted(allowed)}', sig='wrong-rejection-class')
    return ok(nontrivial=nontrivial, classes=('verdict:' + verdict,),
              dontcare=(verdict == 'dontcare'))


# --- differential with real gpg ----------------------------------------------

_fix = {}


def fixtures():
    if 'signer' not in _fix:
        if not gpgfix.have_gpg():
            return None
        h = gpgfix.GpgHome()
        fpr = h.gen_key('C04 signer <c04@example.com>')
        _fix['signer'] = h
        _fix['fpr'] = fpr
        _fix['pub'] = h.export(fpr)
    return _fix


def worker_cleanup():
    if 'signer' in _fix:
        _fix['signer'].close()


class RecordingEnv(IsolatedGPGEnvironment):
    __slots__ = ['handed']

    def __init__(self):
        super().__init__()
        self.handed = []

    def verify_file(self, f):
        text = f.read()
        self.handed.append(text)
        return super().verify_file(io.StringIO(text))


ENTRY_LINES = ['DATA a 0 MD5 d41d8cd98f00b204e9800998ecf8427e',
               'DATA sub/b\\x20c 12 SHA1 da39a3ee5e6b4b0d3255bfef95601890afd80709',
               'IGNORE distfiles', 'MANIFEST sub/Manifest 1 MD5 00',
               'DIST foo.tar 7 SHA512 ab', 'TIMESTAMP 2020-01-01T00:00:00Z',
               'MISC m 3 MD5 11', 'DATA -dash 0', 'DATA trail 1   ',
               'EBUILD x-1.ebuild 5 MD5 22',
               # (multi-byte path: characters and bytes differ by 60)
               'DATA ' + '\u00e9\u6f22' * 20 + ' 3 MD5 44']
# cleartext lines that are not Manifest entries (gpg dash-escapes some)
JUNK_LINES = ['- DATA dashed 0', '-----BEGIN PGP SIGNED MESSAGE-----',
              'junk line', '- - DATA twice 0', 'From here',
              # one signed line that a text layer may split in two
              'IGNORE local\rIGNORE more', 'DATA a 0\rDATA cr 0',
              'IGNORE ff\x0cIGNORE more', 'IGNORE ls\u2028IGNORE more']
INJECT = ['', ' ', 'DATA injected 0', '- DATA injected2 0', 'Hash: SHA512',
          'Comment: x', S, G, N, '- ' + S, 'garbage', '\t',
          'IGNORE injected3']


@st.composite
def gpg_case(draw):
    lines = draw(st.lists(st.sampled_from(ENTRY_LINES + ['', '']),
                          min_size=0, max_size=6))
    if draw(st.integers(0, 3)) == 0:
        lines.insert(draw(st.integers(0, len(lines))),
                     draw(st.sampled_from(JUNK_LINES)))
    muts = []
    for _ in range(draw(st.integers(0, 3))):
        muts.append({
            'op': draw(st.sampled_from(
                ['insert', 'insert', 'delete', 'dup', 'move', 'ws', 'crlf',
                 'cr', 'dash', 'undash', 'prepend', 'append', 'concat',
                 'nest', 'chop', 'longline', 'longline'])),
            'pos': draw(st.integers(0, 40)),
            'pos2': draw(st.integers(0, 40)),
            'text': draw(st.sampled_from(INJECT)),
        })
    return {'lines': lines, 'muts': muts,
            'via': draw(st.sampled_from(['file', 'loader', 'sub-loader'])),
            'lopt': draw(st.sampled_from([None, 'default', 'no-sign',
                                          'sign']))}


def strat_gpg(tier):
    return gpg_case()


LONG_TOTALS = [5000, 19990, 19998, 19999, 20000, 20005, 20010, 20036, 20050,
               25000, 40010]


def mutate_text(signed, other, muts):
    lines = signed.split('\n')
    for mu in muts:
        n = max(1, len(lines))
        i = mu['pos'] % n
        j = mu['pos2'] % n
        op = mu['op']
        if op == 'insert':
            lines.insert(i, mu['text'])
        elif op == 'delete' and lines:
            del lines[i]
        elif op == 'dup' and lines:
            lines.insert(i, lines[i])
        elif op == 'move' and lines:
            ln = lines.pop(i)
            lines.insert(j % max(1, len(lines)), ln)
        elif op == 'ws' and lines:
            lines[i] = lines[i] + ' \t'
        elif op == 'crlf':
            lines = [ln + '\r' if k < len(lines) - 1 else ln
                     for k, ln in enumerate(lines)]
        elif op == 'cr' and lines:
            lines[i] = lines[i] + '\r' + mu['text']
        elif op == 'dash' and lines:
            lines[i] = '- ' + lines[i]
        elif op == 'undash' and lines:
            if lines[i].startswith('- '):
                lines[i] = lines[i][2:]
        elif op == 'prepend':
            lines.insert(0, mu['text'])
        elif op == 'append':
            lines.append(mu['text'])
        elif op == 'concat':
            lines = lines + other.split('\n')
        elif op == 'nest':
            lines[i:i] = other.split('\n')
        elif op == 'chop' and lines:
            lines = lines[:i]
        elif op == 'longline' and lines:
            # blanks up to about the line length OpenPGP implementations
            # handle (gpg: 20000), then more text
            total = LONG_TOTALS[mu['pos2'] % len(LONG_TOTALS)]
            tail = ' MD5 evil' if mu['text'] != '\t' else ' ' + mu['text']
            pad = total - len(lines[i]) - len(tail)
            if pad > 0:
                lines[i] = lines[i] + ' ' * pad + tail
    return '\n'.join(lines)


def entry_keys_gemato(entries):
    out = []
    for e in entries:
        if e.tag == 'TIMESTAMP':
            out.append(('TIMESTAMP', e.ts.isoformat()))
        elif e.tag == 'IGNORE':
            out.append(('IGNORE', e.path))
        else:
            out.append((e.tag, e.path, e.size,
                        tuple(sorted(e.checksums.items()))))
    return out


def entry_keys_ref(entries):
    out = []
    for e in entries:
        if e.tag == 'TIMESTAMP':
            out.append(('TIMESTAMP', e.ts.isoformat()))
        elif e.tag == 'IGNORE':
            out.append(('IGNORE', e.path))
        else:
            out.append((e.tag, e.path, e.size,
                        tuple(sorted(e.checksums.items()))))
    return out


def run_gpg(desc):
    fx = fixtures()
    if fx is None:
        return skip('no-gpg')
    signer = fx['signer']
    text = ''.join(ln + '\n' for ln in desc['lines'])
    signed = signer.clearsign(text)
    other = signer.clearsign('DATA other 1 MD5 33\n')
    mutated = mutate_text(signed, other, desc['muts'])
    d = harness.fresh_dir('c04')
    env = None
    try:
        path = os.path.join(d, 'Manifest')
        with open(path, 'w', encoding='utf8', newline='') as f:
            f.write(mutated)
        env = RecordingEnv()
        env.import_key(io.BytesIO(fx['pub']))
        m = ManifestFile()
        via = desc.get('via', 'file')
        classes = ['mutated' if mutated != signed else 'original',
                   'via:' + via]
        try:
            if via == 'sub-loader':
                # the signed Manifest is a sub-Manifest that an unsigned
                # top-level Manifest refers to with matching checksums
                import hashlib
                os.mkdir(os.path.join(d, 'sub'))
                os.rename(path, os.path.join(d, 'sub', 'Manifest'))
                path = os.path.join(d, 'sub', 'Manifest')
                raw = mutated.encode('utf8')
                with open(os.path.join(d, 'Manifest'), 'w') as f:
                    f.write(f'MANIFEST sub/Manifest {len(raw)} SHA256 '
                            f'{hashlib.sha256(raw).hexdigest()}\n')
                from gemato.recursiveloader import ManifestRecursiveLoader
                ldr = ManifestRecursiveLoader(
                    os.path.join(d, 'Manifest'), verify_openpgp=True,
                    openpgp_env=env)
                ldr.load_manifests_for_path('sub/anything')
                m = ldr.loaded_manifests['sub/Manifest']
            elif via == 'loader':
                # the way the tree loader opens and reads the file
                from gemato.recursiveloader import ManifestRecursiveLoader
                # (verification is the default, whatever the signing
                # options say)
                lkw = {None: {'verify_openpgp': True},
                       'default': {},
                       'no-sign': {'sign_openpgp': False},
                       'sign': {'sign_openpgp': True}}[desc.get('lopt')]
                if desc.get('lopt'):
                    classes.append('loader-option:' + desc['lopt'])
                ldr = ManifestRecursiveLoader(path, openpgp_env=env, **lkw)
                m = ldr.loaded_manifests['Manifest']
            else:
                with open(path, 'r', encoding='utf8') as f:
                    m.load(f, verify_openpgp=True, openpgp_env=env)
            loaded = True
        except GematoException as e:
            loaded = False
            classes.append('rejected:' + type(e).__name__)
        except Exception as e:
            return violation(
                f'loading mutated signed Manifest {mutated!r} raised\n'
                + buckets.describe(e), sig='exc:' + buckets.signature(e),
                classes=classes)
        valid_body = all(ln in ENTRY_LINES or ln == '' for ln in desc['lines'])
        if not loaded:
            if mutated == signed and valid_body:
                return violation(
                    f'genuinely signed Manifest is rejected: {signed!r}',
                    sig='original-rejected', classes=classes)
            return ok(nontrivial=True, classes=classes)
        classes.append('accepted')
        # what the text layer presented
        with open(path, 'r', encoding='utf8') as f:
            seen = f.read()
        if not m.openpgp_signed:
            # accepted as an unsigned Manifest: must not contain armor
            if any(ln.startswith('-----') for ln in seen.split('\n')):
                return violation(
                    f'{mutated!r} loaded as unsigned although it contains '
                    f'armor lines', sig='armor-in-unsigned', classes=classes)
            return ok(nontrivial=mutated != signed,
                      classes=classes + ['as-unsigned'])
        if len(env.handed) != 1:
            return violation(f'backend called {len(env.handed)} times',
                             sig='backend-calls', classes=classes)
        handed = env.handed[0]
        idx = seen.find(handed)
        if idx < 0:
            return violation(
                f'text handed to gpg {handed!r} is not a span of the file '
                f'{seen!r}', sig='handed-not-a-span', classes=classes)
        outside = seen[:idx] + seen[idx + len(handed):]
        if outside.strip():
            return violation(
                f'non-blank content outside the verified span accepted: '
                f'{outside!r}', sig='content-outside-span', classes=classes)
        hl = handed.split('\n')
        if hl[0] != S or N not in hl[-2:]:
            return violation(
                f'verified span does not run from the signed-message header '
                f'to the signature end: {handed!r}', sig='span-bounds',
                classes=classes)
        # independent: what did gpg authenticate?
        rc, clear, status = signer.decrypt(handed)
        kws = gpgfix.status_keywords(status)
        if rc != 0 or 'GOODSIG' not in kws:
            return violation(
                f'gemato accepted a text that gpg --decrypt does not '
                f'authenticate (rc {rc}, {kws}): {handed!r}',
                sig='accepted-unauthenticated', classes=classes)
        try:
            ref = R.parse_strict(clear.decode('utf8'))
        except Exception as e:
            return violation(
                f'gemato accepted entries {entry_keys_gemato(m.entries)!r} '
                f'but the authenticated cleartext {clear!r} does not parse: '
                f'{e}', sig='cleartext-not-parsable', classes=classes)
        if entry_keys_ref(ref) != entry_keys_gemato(m.entries):
            return violation(
                f'entries used {entry_keys_gemato(m.entries)!r} differ from '
                f'the entries of the cleartext gpg authenticated '
                f'{entry_keys_ref(ref)!r} (file {mutated!r})',
                sig='entries-differ-from-authenticated', classes=classes)
        return ok(nontrivial=mutated != signed, classes=classes)
    finally:
        if env is not None:
            env.close()
        harness.rmtree(d)


def check_framework_text(text):
    """Safety invariants of the signed-message framework on arbitrary text
    (recording stub backend)."""

    class Stub:
        handed = None

        def verify_file(self, f):
            self.handed = f.read()
            return 'SIG'
    stub = Stub()
    m = ManifestFile()
    try:
        m.load(io.StringIO(text), verify_openpgp=True, openpgp_env=stub)
    except (ManifestSyntaxError, ManifestUnsignedData):
        return ok(nontrivial='-----' in text)
    except Exception as e:
        return violation(f'text {text!r}: ' + buckets.describe(e),
                         sig='exc:' + buckets.signature(e))
    lines = text.split('\n')
    S = '-----BEGIN PGP SIGNED MESSAGE-----'
    N = '-----END PGP SIGNATURE-----'
    if m.openpgp_signed:
        if stub.handed is None:
            return violation(f'text {text!r}: signed without verification',
                             sig='signed-without-verification')
        if stub.handed not in text or not stub.handed.startswith(S + '\n') \
                or not stub.handed.rstrip('\n').endswith(N):
            return violation(
                f'text {text!r}: handed {stub.handed!r} is not the signed '
                f'message span', sig='handed-text-wrong')
        outside = text.replace(stub.handed, '', 1)
        if outside.strip():
            return violation(
                f'text {text!r}: non-blank content outside the verified span '
                f'accepted', sig='content-outside-span')
    elif any(ln.startswith('-----') and ln.rstrip().endswith('-----')
             for ln in lines):
        return violation(f'text {text!r}: armor line in a Manifest accepted '
                         f'as unsigned', sig='armor-in-unsigned')
    return ok(nontrivial=m.openpgp_signed)



# --- same file loaded twice in one process -----------------------------------

@st.composite
def reload_case(draw):
    return {'lines': draw(st.lists(st.sampled_from(ENTRY_LINES), min_size=1,
                                   max_size=5)),
            'pos': draw(st.integers(0, 10 ** 6)),
            'keep_mtime': draw(st.booleans()),
            'second': draw(st.sampled_from(['tampered', 'tampered',
                                            'unsigned']))}


def strat_reload(tier):
    return reload_case()


def run_reload(desc):
    from gemato.recursiveloader import ManifestRecursiveLoader
    fx = fixtures()
    if fx is None:
        return skip('no-gpg')
    text = ''.join(ln + '\n' for ln in desc['lines'])
    signed = fx['signer'].clearsign(text)
    b = signed.encode('utf8')
    start = b.index(b'\n\n') + 2
    end = b.index(b'-----BEGIN PGP SIGNATURE-----')
    # flip one alphanumeric character of the body, keeping the size
    cand = [i for i in range(start, end) if chr(b[i]).isalnum()]
    i = cand[desc['pos'] % len(cand)]
    repl = b'1' if b[i:i + 1] != b'1' else b'2'
    if desc['second'] == 'tampered':
        second = b[:i] + repl + b[i + 1:]
    else:
        body = b[start:end]
        second = (body + b'\n' * (len(b) - len(body)))[:len(b)]
    d = harness.fresh_dir('c04r')
    env = None
    try:
        path = os.path.join(d, 'Manifest')
        with open(path, 'wb') as f:
            f.write(b)
        env = RecordingEnv()
        env.import_key(io.BytesIO(fx['pub']))
        m1 = ManifestRecursiveLoader(path, verify_openpgp=True,
                                     openpgp_env=env)
        if not m1.openpgp_signed:
            return violation('genuinely signed Manifest not reported signed',
                             sig='original-not-signed')
        st0 = os.stat(path)
        with open(path, 'r+b') as f:
            f.write(second)
        if desc['keep_mtime']:
            os.utime(path, ns=(st0.st_atime_ns, st0.st_mtime_ns))
        classes = ['second:' + desc['second'],
                   'mtime-kept' if desc['keep_mtime'] else 'mtime-new']
        try:
            m2 = ManifestRecursiveLoader(path, verify_openpgp=True,
                                         openpgp_env=env)
        except GematoException:
            if desc['second'] == 'unsigned':
                return violation('unsigned rewrite of the same file rejected',
                                 sig='unsigned-rejected', classes=classes)
            return ok(nontrivial=True, classes=classes)
        except Exception as e:
            return violation(buckets.describe(e),
                             sig='exc:' + buckets.signature(e),
                             classes=classes)
        if desc['second'] == 'tampered':
            return violation(
                f'the Manifest file was changed in place (byte {i}, same '
                f'size, mtime kept: {desc["keep_mtime"]}) after a first '
                f'verified load in this process; the second load accepts '
                f'it (openpgp_signed={m2.openpgp_signed})',
                sig='tampered-accepted-on-reload', classes=classes)
        if m2.openpgp_signed:
            return violation(
                'the file was replaced by unsigned text of the same size; '
                'the second load still reports it as signed',
                sig='unsigned-reported-signed-on-reload', classes=classes)
        return ok(nontrivial=True, classes=classes)
    finally:
        if env is not None:
            env.close()
        harness.rmtree(d)


import fuzzpart  # noqa: E402

PARTS = [
    Part('sequences', run_sequence, enumerate=enum_sequences,
         exhaustive=True, budget={'quick': 150, 'thorough': 1500}),
    Part('gpg', run_gpg, strategy=strat_gpg,
         examples={'quick': 6000, 'thorough': 80000},
         budget={'quick': 60, 'thorough': 900}),
    Part('reload', run_reload, strategy=strat_reload,
         examples={'quick': 600, 'thorough': 6000},
         budget={'quick': 40, 'thorough': 300}),
    # coverage-guided supplement (atheris/libFuzzer), invariants in-target
    Part('atheris', fuzzpart.run_campaign('c04', check_framework_text),
         enumerate=fuzzpart.enum_campaigns({'quick': 30000,
                                            'thorough': 2000000}),
         budget={'quick': 60, 'thorough': 900}),
]

LEVEL_TEXT = ('The loader\'s framework handling is enumerated exhaustively '
              'over all line-class sequences up to length 6/7 against a '
              'regular-expression reference and safety invariants; a '
              'differential run against real gpg checks that what is parsed '
              'is what gpg authenticated, on sampled mutations.')
LEVEL_NOTE = ('Trusted: the regular expressions in this file (reference), '
              'gpg --decrypt as the authority on the authenticated '
              'cleartext, refmanifest.')
TECHNIQUE = ('bounded-exhaustive enumeration of line-class sequences '
             'against a regular-language reference, differential mutation '
             'testing against gpg (Hypothesis), coverage-guided fuzzing '
             '(atheris) of the framework invariants')
