# C16 - Tree walks always terminate and respect filesystem boundaries.

import hashlib
import os
import stat

from hypothesis import strategies as st

import buckets
import gem
import harness
import mountns
import refmanifest as R
import refscan
import shim
import updgen
from harness import Part, ok, violation, skip

from gemato.exceptions import (ManifestSymlinkLoop, ManifestCrossDevice,
                               GematoException)

PROPERTY = 'C16'
LEVEL = 'exploration'
RULE = ('(profile-ignored, exhaustive: 2 profiles x 4 default-ignored names x loop/foreign filesystem x create/update) nothing beneath a directory the profile IGNOREs by default is entered. ' 
        '(loops) Hypothesis: 1..6 real directories (any shape), 0..3 files '
        'each, up to 4 directory symlinks (targets: self, parent, any '
        'ancestor, sibling, cousin, mutual pairs, chains, dangling; visible '
        'and hidden link names), IGNORE on the link, above it or on a '
        'look-alike; the Manifest lists every file a correct link-following '
        'walk sees (some dropped/stale). Operations: verification with a '
        'keep-going handler, update+scan, load_unregistered_manifests, with '
        'a step budget on directory reads derived from the reference walk '
        '(no wall clock). Reference: depth-first walk carrying the (dev, '
        'ino) of the directories on the current path. (xdev) a tmpfs '
        'mounted at, or symlinked into, a directory position, or a file '
        'symlink to a file on it; listed/unlisted; IGNOREd or not; '
        'allow_xdev on/off; verify, assert_path_verifies, update, CLI -x. '
        'Non-trivial: >= 1 directory symlink that is not pruned, or a '
        'device boundary; distinct by descriptor hash.')
ASSUMPTIONS = [
    'For a loop only the exception class is compared (detection may come '
    'one level deeper than the first revisit).',
    'Termination is checked as "directory reads <= 30*N + 300" where N is '
    'the number of directories the reference walk opens; the kernel\'s own '
    'ELOOP limit also bounds every walk.',
    'Device boundaries need CLONE_NEWNS + tmpfs mounts; otherwise skipped.',
]

DNAMES = ['a', 'b', 'c', 'foo', 'foobar', 'x y']
LNAMES = ['ln', 'loop', 'l k', '.hid', 'foo.d']


class BudgetExceeded(Exception):
    pass


class ScandirBudget:
    def __init__(self, root, limit):
        self.root = os.path.realpath(root)
        self.limit = limit
        self.calls = 0

    def __enter__(self):
        self.real = os.scandir

        def scandir(path='.'):
            self.calls += 1
            if self.calls > self.limit:
                raise BudgetExceeded(self.calls)
            return self.real(path)
        os.scandir = scandir
        return self

    def __exit__(self, *a):
        os.scandir = self.real
        return False


@st.composite
def loops_case(draw):
    dirs = ['']
    for _ in range(draw(st.integers(0, 5))):
        parent = draw(st.sampled_from(dirs))
        n = draw(st.sampled_from(DNAMES))
        p = (parent + '/' if parent else '') + n
        if p not in dirs:
            dirs.append(p)
    files = []
    for d in dirs:
        for i in range(draw(st.integers(0, 2))):
            files.append((d + '/' if d else '') + f'f{i}')
    links = []
    taken = set(dirs) | set(files)
    for _ in range(draw(st.integers(0, 4))):
        parent = draw(st.sampled_from(dirs))
        n = draw(st.sampled_from(LNAMES))
        p = (parent + '/' if parent else '') + n
        if p in taken:
            continue
        kind = draw(st.sampled_from(['self', 'parent', 'dir', 'dir', 'dir',
                                     'dangling', 'link']))
        if kind == 'self':
            tgt = '.'
        elif kind == 'parent':
            tgt = '..' if parent else '.'
        elif kind == 'dangling':
            tgt = 'nowhere'
        elif kind == 'link' and links:
            other = draw(st.sampled_from(links))['p']
            tgt = os.path.relpath(other, parent or '.')
        else:
            t = draw(st.sampled_from(dirs))
            tgt = os.path.relpath(t or '.', parent or '.')
        taken.add(p)
        links.append({'p': p, 'to': tgt})
    ignores = []
    if links and draw(st.integers(0, 2)) == 0:
        l = draw(st.sampled_from(links))['p']
        k = draw(st.sampled_from(['link', 'above', 'lookalike', 'lookalike']))
        if k == 'link':
            ignores.append(l)
        elif k == 'above' and '/' in l:
            ignores.append(l.rsplit('/', 1)[0])
        else:
            ignores.append(draw(st.sampled_from([l + 'x', l[:-1] or 'q',
                                                 l + '.d'])))
    return {'dirs': dirs[1:], 'files': files, 'links': links,
            'ignores': [i for i in ignores if i not in taken or True],
            'drop': draw(st.integers(0, 9)),
            'hashes': ['MD5']}


def strat_loops(tier):
    return loops_case()


def comp_prefix(prefix, path):
    return path == prefix or path.startswith(prefix + '/')


class RefWalk:
    def __init__(self, root, ignores, node_limit=4000):
        self.root = root
        self.ignores = ignores
        self.files = []
        self.dirs = 0
        self.loop = None
        self.followed_links = 0
        self.node_limit = node_limit
        self.overflow = False

    def walk(self, rel='', ancestors=()):
        if self.loop or self.overflow:
            return
        sysd = os.path.join(self.root, rel) if rel else self.root
        st_ = os.stat(sysd)
        ident = (st_.st_dev, st_.st_ino)
        if ident in ancestors:
            self.loop = rel
            return
        self.dirs += 1
        if self.dirs > self.node_limit:
            self.overflow = True
            return
        for name in sorted(os.listdir(sysd)):
            if name.startswith('.'):
                continue
            full = (rel + '/' if rel else '') + name
            if any(comp_prefix(i, full) for i in self.ignores):
                continue
            sysp = os.path.join(self.root, full)
            try:
                mode = os.stat(sysp).st_mode
            except OSError:
                if os.path.islink(sysp):
                    self.files.append((full, 'dangling'))
                continue
            if stat.S_ISDIR(mode):
                if os.path.islink(sysp):
                    self.followed_links += 1
                self.walk(full, ancestors + (ident,))
                if self.loop or self.overflow:
                    return
            else:
                self.files.append((full, 'file'))


def build_loops(desc, root):
    for d in desc['dirs']:
        os.makedirs(os.path.join(root, d), exist_ok=True)
    for f in desc['files']:
        with open(os.path.join(root, f), 'w') as fh:
            fh.write('content of ' + f)
    for l in desc['links']:
        os.symlink(l['to'], os.path.join(root, l['p']))


def run_loops(desc):
    root = harness.fresh_dir('c16')
    try:
        build_loops(desc, root)
        rw = RefWalk(root, desc['ignores'])
        rw.walk()
        if rw.overflow:
            return skip('reference-walk-too-large')
        classes = []
        dangling = [f for f, k in rw.files if k == 'dangling']
        listed = [f for f, k in rw.files if k == 'file']
        dropped = []
        if listed and desc['drop'] == 0:
            dropped = [listed[0]]
            listed = listed[1:]
        lines = ['IGNORE ' + R.escape_path(i) for i in desc['ignores']]
        for f in listed:
            with open(os.path.join(root, f), 'rb') as fh:
                data = fh.read()
            lines.append('DATA %s %d MD5 %s' % (
                R.escape_path(f), len(data), hashlib.md5(data).hexdigest()))
        with open(os.path.join(root, 'Manifest'), 'w') as fh:
            fh.write('\n'.join(lines) + '\n')
        limit = 30 * max(rw.dirs, 1) + 300
        expect_loop = rw.loop is not None
        classes.append('loop' if expect_loop else 'no-loop')
        if rw.followed_links:
            classes.append('links-followed')
        if desc['ignores']:
            classes.append('ignore')
        nontrivial = expect_loop or rw.followed_links > 0

        def judge(opname, oc, calls):
            if oc.kind == 'other' and isinstance(oc.exc, BudgetExceeded):
                return violation(
                    f'{opname}: more than {limit} directory reads for a tree '
                    f'whose correct walk opens {rw.dirs} directories (links '
                    f'{desc["links"]!r}): the walk does not terminate',
                    sig='walk-exceeds-step-bound:' + opname, classes=classes)
            if expect_loop:
                if oc.kind == 'loop':
                    return None
                return violation(
                    f'{opname}: symlink {rw.loop!r} leads back to one of its '
                    f'ancestors (links {desc["links"]!r}, ignores '
                    f'{desc["ignores"]!r}) but the result was '
                    f'{oc.describe()}',
                    sig='loop-not-raised:' + opname + ':' + oc.kind,
                    classes=classes)
            if oc.kind == 'loop':
                return violation(
                    f'{opname}: ManifestSymlinkLoop raised although no '
                    f'followed link leads back to an ancestor (links '
                    f'{desc["links"]!r}, ignores {desc["ignores"]!r}): '
                    f'{oc.exc}', sig='false-loop:' + opname, classes=classes)
            return 'continue'

        # 1. verification, keep-going
        calls = []

        def handler(err):
            calls.append(os.path.normpath(err.path))
            return False
        with ScandirBudget(root, limit):
            oc = gem.verify_lib(root, fail_handler=handler)
        v = judge('verify', oc, calls)
        if v is not None and v != 'continue':
            return v
        if v == 'continue':
            if oc.kind != 'return':
                return violation(
                    f'verify: unexpected {oc.describe()}',
                    sig='unexpected:verify:' + buckets.signature(oc.exc),
                    classes=classes)
            want = set(dropped)
            got = set(calls) - set(dangling)
            if got != want or oc.value is not (not want):
                return violation(
                    f'verify: files seen through followed links are not '
                    f'treated like other files: reported {sorted(calls)}, '
                    f'expected stray {sorted(want)}, result {oc.value!r} '
                    f'(links {desc["links"]!r})',
                    sig='linked-files-mishandled:verify', classes=classes)
        # 1b. the same starting from each directory of the tree
        for d in desc['dirs']:
            if any(comp_prefix(i, d) for i in desc['ignores']):
                continue
            rw2 = RefWalk(root, desc['ignores'])
            rw2.walk(d)
            if rw2.overflow:
                continue
            with ScandirBudget(root, limit):
                oc = gem.verify_lib(root, d, fail_handler=lambda e: False)
            if rw2.loop is not None and oc.kind != 'loop':
                return violation(
                    f'verify of sub-path {d!r}: symlink {rw2.loop!r} leads '
                    f'back to an ancestor (links {desc["links"]!r}) but the '
                    f'result was {oc.describe()}',
                    sig='loop-not-raised:verify-subpath:' + oc.kind,
                    classes=classes)
            if rw2.loop is None and oc.kind == 'loop':
                return violation(
                    f'verify of sub-path {d!r}: ManifestSymlinkLoop raised '
                    f'although no followed link leads back to an ancestor '
                    f'(links {desc["links"]!r}): {oc.exc}',
                    sig='false-loop:verify-subpath', classes=classes)
            if oc.kind == 'other' and isinstance(oc.exc, BudgetExceeded):
                return violation(
                    f'verify of sub-path {d!r} does not terminate',
                    sig='walk-exceeds-step-bound:verify-subpath',
                    classes=classes)
            classes.append('sub-path-verified')
        # 2. unregistered-Manifest scan
        with ScandirBudget(root, limit):
            oc = gem.call(lambda: gem.loader(root)
                          .load_unregistered_manifests(''))
        v = judge('load_unregistered_manifests', oc, None)
        if v is not None and v != 'continue':
            return v
        if v == 'continue' and oc.kind != 'return':
            return violation(
                f'load_unregistered_manifests: unexpected {oc.describe()}',
                sig='unexpected:unregistered:' + buckets.signature(oc.exc),
                classes=classes)
        # 3. update
        o = {'hashes': desc['hashes'], 'sort': None, 'force': False,
             'target': '', 'api': 'lib', 'watermark': None, 'format': None}
        with ScandirBudget(root, limit):
            oc = updgen.run_update(root, o)
        v = judge('update', oc, None)
        if v is not None and v != 'continue':
            return v
        if v == 'continue':
            if dangling and oc.kind == 'gemato':
                return ok(nontrivial=nontrivial,
                          classes=classes + ['dangling'])
            if oc.kind != 'return':
                return violation(
                    f'update: unexpected {oc.describe()}',
                    sig='unexpected:update:' + buckets.signature(oc.exc),
                    classes=classes)
            sc = refscan.scan(root, 'Manifest', '', desc['hashes'])
            if sc.problems:
                return violation(
                    f'update: files seen through followed links are not '
                    f'recorded like other files: {sc.problems[:5]!r} (links '
                    f'{desc["links"]!r})',
                    sig='linked-files-mishandled:update', classes=classes)
        return ok(nontrivial=nontrivial, classes=classes)
    finally:
        harness.rmtree(root)


# --- device boundaries -------------------------------------------------------

@st.composite
def xdev_case(draw):
    return {
        'kind': draw(st.sampled_from(['mount', 'mount', 'dirlink',
                                      'filelink', 'dirlink-as-file'])),
        'where': draw(st.sampled_from(['top', 'sub', 'sub/deep'])),
        'listed': draw(st.booleans()),
        'ignored': draw(st.sampled_from([None, None, 'exact', 'above',
                                         'lookalike'])),
        'allow_xdev': draw(st.booleans()),
        'api': draw(st.sampled_from(['lib', 'lib', 'cli'])),
        # (0: the foreign directory is empty)
        'nfiles': draw(st.sampled_from([0, 1, 1, 2, 3])),
        # CLI: an ordinary second path given before the crossing one
        'two_paths': draw(st.booleans()),
        # update: a valid Manifest that nothing references yet sits in an
        # ordinary directory of the tree
        'unregistered': draw(st.booleans()),
    }


def strat_xdev(tier):
    return xdev_case()


def run_xdev(desc):
    if not mountns.available():
        return skip('no-mount-namespace')
    base = harness.fresh_dir('c16x')
    root = os.path.join(base, 'tree')
    other = os.path.join(base, 'otherfs')
    try:
        os.mkdir(root)
        os.mkdir(other)
        mountns.mount_tmpfs(other)
        os.makedirs(os.path.join(root, 'sub', 'deep'))
        os.makedirs(os.path.join(root, 'plain'))
        entries = {}

        def add_file(rel, data=b'data\n', listed=True):
            p = os.path.join(root, rel)
            if not os.path.lexists(p):
                with open(p, 'wb') as f:
                    f.write(data)
            if listed:
                entries[rel] = data
        add_file('plain/p1')
        add_file('sub/s1')
        add_file('sub/deep/d1')
        pos = {'top': 'X', 'sub': 'sub/X', 'sub/deep': 'sub/deep/X'}[
            desc['where']]
        foreign = []
        if desc['kind'] == 'mount':
            os.mkdir(os.path.join(root, pos))
            mountns.mount_tmpfs(os.path.join(root, pos))
            for i in range(desc['nfiles']):
                add_file(f'{pos}/m{i}', b'on the other fs\n', desc['listed'])
                foreign.append(f'{pos}/m{i}')
            boundary = pos
        elif desc['kind'] == 'dirlink-as-file':
            # a name listed as a file that is a directory on the other
            # filesystem
            os.mkdir(os.path.join(other, 'dir'))
            os.symlink(os.path.join(other, 'dir'), os.path.join(root, pos))
            entries[pos] = b'listed as a file\n'
            foreign.append(pos)
            boundary = pos
        elif desc['kind'] == 'dirlink':
            os.mkdir(os.path.join(other, 'dir'))
            for i in range(desc['nfiles']):
                with open(os.path.join(other, 'dir', f'm{i}'), 'wb') as f:
                    f.write(b'on the other fs\n')
            os.symlink(os.path.join(other, 'dir'), os.path.join(root, pos))
            for i in range(desc['nfiles']):
                if desc['listed']:
                    entries[f'{pos}/m{i}'] = b'on the other fs\n'
                foreign.append(f'{pos}/m{i}')
            boundary = pos
        else:
            with open(os.path.join(other, 'file'), 'wb') as f:
                f.write(b'on the other fs\n')
            os.symlink(os.path.join(other, 'file'), os.path.join(root, pos))
            if desc['listed']:
                entries[pos] = b'on the other fs\n'
            foreign.append(pos)
            boundary = pos
        ignores = []
        if desc['ignored'] == 'exact':
            ignores.append(boundary)
        elif desc['ignored'] == 'above' and '/' in boundary:
            ignores.append(boundary.rsplit('/', 1)[0])
        elif desc['ignored'] == 'lookalike':
            ignores.append(boundary + 'x')
        ignored = any(comp_prefix(i, boundary) for i in ignores)
        lines = ['IGNORE ' + i for i in ignores]
        for rel, data in sorted(entries.items()):
            if any(comp_prefix(i, rel) for i in ignores):
                continue
            lines.append('DATA %s %d MD5 %s' % (
                rel, len(data), hashlib.md5(data).hexdigest()))
        with open(os.path.join(root, 'Manifest'), 'w') as f:
            f.write('\n'.join(lines) + '\n')
        classes = ['kind:' + desc['kind'],
                   'xdev-allowed' if desc['allow_xdev'] else 'xdev-forbidden',
                   'ignored' if ignored else 'not-ignored',
                   'listed' if desc['listed'] else 'unlisted']
        lk = {} if desc['allow_xdev'] else {'allow_xdev': False}
        must_raise = (not desc['allow_xdev']) and not ignored
        # which verdict would an ordinary tree get?
        ordinary_ok = desc['listed'] or ignored

        def check(opname, oc, allow_mismatch):
            if must_raise:
                if oc.kind == 'xdev':
                    return None
                if allow_mismatch and (oc.kind == 'mismatch' or (
                        oc.kind == 'return' and (oc.value is False
                                                 or oc.value == 1))):
                    return None
                return violation(
                    f'{opname}: {desc["kind"]} at {boundary!r} is on another '
                    f'filesystem (listed={desc["listed"]}, ignores '
                    f'{ignores}) and crossing is disallowed, result: '
                    f'{oc.describe()}',
                    sig=f'xdev-not-raised:{opname}:{desc["kind"]}:'
                        f'{oc.kind}', classes=classes)
            if oc.kind == 'xdev':
                return violation(
                    f'{opname}: ManifestCrossDevice raised although '
                    f'{"crossing is allowed" if desc["allow_xdev"] else "the object is IGNOREd"}'
                    f' ({oc.exc})', sig=f'false-xdev:{opname}',
                    classes=classes)
            return 'continue'

        calls = []

        def handler(err):
            calls.append(os.path.normpath(err.path))
            return False
        if desc['kind'] == 'dirlink-as-file':
            if not must_raise:
                return ok(classes=classes + ['crossing-allowed-or-ignored'])
            for policy in (False, True, None):
                oc = gem.verify_lib(root, fail_handler=lambda e: policy,
                                    loader_kwargs=lk)
                v = check(f'verify(keep-going, handler returns {policy})',
                          oc, allow_mismatch=False)
                if v is not None and v != 'continue':
                    return v
            oc, records, _ = gem.cli(['verify', '-k', '-x', root])
            v = check('cli verify -k -x', oc, allow_mismatch=False)
            if v is not None and v != 'continue':
                return v
            return ok(nontrivial=True, classes=classes)
        if desc['api'] == 'lib':
            oc = gem.verify_lib(root, fail_handler=handler, loader_kwargs=lk)
        else:
            cli_paths = [root]
            if desc.get('two_paths'):
                cli_paths = [os.path.join(root, 'plain'), root]
                classes.append('two-paths')
            oc, records, _ = gem.cli(
                ['verify', '-k'] + ([] if desc['allow_xdev'] else ['-x'])
                + cli_paths)
            calls = [os.path.normpath(p)
                     for p in gem.mismatch_paths(records)]
        v = check('verify', oc, allow_mismatch=not desc['listed'])
        if v is not None and v != 'continue':
            return v
        if v == 'continue':
            if oc.kind != 'return':
                return violation(f'verify: unexpected {oc.describe()}',
                                 sig='unexpected:verify', classes=classes)
            want = set() if ordinary_ok else set(foreign)
            okval = (oc.value is True if desc['api'] == 'lib'
                     else (oc.value == 0 and oc.value is not False))
            if set(calls) != want or okval != (not want):
                return violation(
                    f'verify: foreign objects not treated like others: '
                    f'reported {sorted(calls)}, expected {sorted(want)}, '
                    f'result {oc.value!r}', sig='foreign-mishandled:verify',
                    classes=classes)
        # the same with a last_mtime that allows skipping checksums
        if desc['api'] == 'lib':
            oc = gem.verify_lib(root, fail_handler=lambda e: False,
                                last_mtime=4_000_000_000, loader_kwargs=lk)
            v = check('verify-with-last_mtime', oc,
                      allow_mismatch=not desc['listed'])
            if v is not None and v != 'continue':
                return v
            oc = updgen.run_update(
                root, {'hashes': ['MD5'], 'sort': None, 'force': False,
                       'target': '', 'api': 'lib', 'watermark': None,
                       'format': None}, save=False, loader_kwargs=lk,
                last_mtime=4_000_000_000)
            v = check('update-with-last_mtime', oc, allow_mismatch=False)
            if v is not None and v != 'continue':
                return v
        # single path
        if desc['listed'] and not ignored and foreign:
            oc = gem.call(lambda: gem.loader(root, **lk)
                          .assert_path_verifies(foreign[0]))
            v = check('assert_path_verifies', oc, allow_mismatch=False)
            if v is not None and v != 'continue':
                return v
            if v == 'continue' and oc.kind != 'return':
                return violation(
                    f'assert_path_verifies: unexpected {oc.describe()}',
                    sig='unexpected:assert_path_verifies', classes=classes)
        # update
        o = {'hashes': ['MD5'], 'sort': None, 'force': False, 'target': '',
             'api': desc['api'], 'watermark': None, 'format': None}
        if desc.get('unregistered'):
            with open(os.path.join(root, 'plain', 'Manifest'), 'w') as f:
                f.write('DATA p1 5 MD5 %s\n'
                        % hashlib.md5(b'data\n').hexdigest())
            classes.append('unregistered-manifest')
        before = open(os.path.join(root, 'Manifest')).read()
        extra_cli = [] if desc['allow_xdev'] else ['-x']
        if desc['api'] == 'cli' and desc.get('two_paths'):
            # `gemato update [-x] <tree>/plain <tree>`
            extra_cli = extra_cli + [os.path.join(root, 'plain')]
        oc = updgen.run_update(
            root, o, loader_kwargs=lk, extra_cli=extra_cli)
        v = check('update', oc, allow_mismatch=False)
        if v is not None and v != 'continue':
            return v
        if must_raise:
            after = open(os.path.join(root, 'Manifest')).read()
            if desc['api'] == 'cli' and desc.get('two_paths'):
                # the ordinary first path was updated and saved before the
                # second one hit the boundary
                after = before
            if after != before:
                return violation(
                    'update: Manifest rewritten although the update hit a '
                    'filesystem boundary', sig='xdev-update-wrote',
                    classes=classes)
        elif oc.kind != 'return':
            return violation(f'update: unexpected {oc.describe()}',
                             sig='unexpected:update', classes=classes)
        else:
            sc = refscan.scan(root, 'Manifest', '', ['MD5'])
            if sc.problems:
                return violation(
                    f'update across an allowed/ignored boundary: '
                    f'{sc.problems[:4]!r}', sig='foreign-mishandled:update',
                    classes=classes)
        # the same when the top-level Manifest is only being created
        os.unlink(os.path.join(root, 'Manifest'))
        oc = updgen.run_update(
            root, o, create=True, loader_kwargs=lk,
            extra_cli=([] if desc['allow_xdev'] else ['-x']))
        if not desc['allow_xdev']:
            if oc.kind != 'xdev':
                return violation(
                    f'create: {desc["kind"]} at {boundary!r} is on another '
                    f'filesystem and crossing is disallowed, but creating '
                    f'the Manifest tree gave {oc.describe()}',
                    sig=f'xdev-not-raised:create:{desc["kind"]}:{oc.kind}',
                    classes=classes)
        elif oc.kind != 'return':
            return violation(f'create: unexpected {oc.describe()}',
                             sig='unexpected:create', classes=classes)
        return ok(nontrivial=True, classes=classes)
    finally:
        mountns.umount_all_under(base)
        harness.rmtree(base)


# --- directories that a profile ignores by default ---------------------------

PROFILE_IGNORED = ['distfiles', 'local', 'lost+found', 'packages']


def enum_profile_ignored(tier, shard, nshards):
    i = 0
    for profile in ('ebuild', 'old-ebuild'):
        for name in PROFILE_IGNORED:
            for what in ('loop', 'foreign'):
                for cmd in ('create', 'update'):
                    if i % nshards == shard:
                        yield {'profile': profile, 'name': name,
                               'what': what, 'cmd': cmd}
                    i += 1


def run_profile_ignored(desc):
    """A loop or another filesystem beneath a directory that the profile
    IGNOREs by default (distfiles, local, ...) is as invisible as beneath any
    other IGNOREd path - also while the top-level Manifest is being created."""
    if desc['what'] == 'foreign' and not mountns.available():
        return skip('no-mount-namespace')
    base = harness.fresh_dir('c16p')
    root = os.path.join(base, 'repo')
    try:
        os.makedirs(os.path.join(root, 'cat', 'pkg'))
        os.makedirs(os.path.join(root, desc['name'], 'inner'))
        with open(os.path.join(root, 'cat', 'pkg', 'pkg-1.ebuild'), 'w') as f:
            f.write('EAPI=7\n')
        with open(os.path.join(root, desc['name'], 'inner', 'f'), 'w') as f:
            f.write('x')
        xopt = []
        if desc['what'] == 'loop':
            os.symlink('../..', os.path.join(root, desc['name'], 'inner',
                                             'back'))
        else:
            other = os.path.join(base, 'otherfs')
            os.mkdir(other)
            mountns.mount_tmpfs(other)
            with open(os.path.join(other, 'g'), 'w') as f:
                f.write('y')
            os.symlink(other, os.path.join(root, desc['name'], 'ext'))
            xopt = ['-x']
        classes = ['profile:' + desc['profile'], 'what:' + desc['what'],
                   'cmd:' + desc['cmd']]
        argv = ['create'] + xopt + ['-p', desc['profile'], root]
        oc, records, _ = gem.cli(argv)
        what = f'`gemato {" ".join(argv[:-1])} <repo>`'
        if desc['cmd'] == 'update' and oc.kind == 'return' and oc.value == 0:
            with open(os.path.join(root, 'cat', 'pkg', 'new'), 'w') as f:
                f.write('n')
            argv = ['update'] + xopt + ['-p', desc['profile'], root]
            oc, records, _ = gem.cli(argv)
            what = f'`gemato {" ".join(argv[:-1])} <repo>` (after create)'
        if oc.kind != 'return' or oc.value != 0:
            return violation(
                f'{what} with a {desc["what"]} beneath the profile-ignored '
                f'directory {desc["name"]!r}: {oc.describe()} '
                f'{[r.getMessage()[:120] for r in gem.error_records(records)]}',
                sig=f'profile-ignored-directory-entered:{desc["what"]}',
                classes=classes)
        oc, records, _ = gem.cli(['verify'] + xopt + [root])
        if oc.kind != 'return' or oc.value != 0:
            return violation(
                f'{what}: the result does not verify: {oc.describe()}',
                sig='profile-ignored:verify-failed', classes=classes)
        return ok(nontrivial=True, classes=classes)
    finally:
        if mountns._state['ok']:
            mountns.umount_all_under(base)
        harness.rmtree(base)


PARTS = [
    Part('profile-ignored', run_profile_ignored,
         enumerate=enum_profile_ignored, exhaustive=True,
         budget={'quick': 30, 'thorough': 60}),
    Part('loops', run_loops, strategy=strat_loops,
         examples={'quick': 40000, 'thorough': 400000},
         budget={'quick': 50, 'thorough': 700}),
    Part('xdev', run_xdev, strategy=strat_xdev,
         examples={'quick': 1500, 'thorough': 20000},
         budget={'quick': 40, 'thorough': 400}),
]

LEVEL_TEXT = ('Generated link graphs compared with a reference walk '
              '(exception class, treatment of files behind followed links, '
              'step budget instead of a clock); real device boundaries via '
              'tmpfs mounts for the one-file-system mode.')
LEVEL_NOTE = ('Trusted: the reference walk, the kernel\'s (st_dev, st_ino), '
              'the mount namespace helper. Termination is shown within a '
              'step bound on generated graphs, not proved.')
TECHNIQUE = ('model-based property testing (Hypothesis) over symlink graphs '
             'and tmpfs device boundaries with a step budget')
