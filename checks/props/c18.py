# C18 - Bad input produces a diagnosed failure, not an internal error.

import errno
import logging
import os

from hypothesis import strategies as st

import buckets
import gem
import harness
import layout
import mutate
import refmanifest as R
import repogen
import treegen
import updgen
from harness import Part, ok, violation, skip

from props import c01, c09

PROPERTY = 'C18'
LEVEL = 'exploration'
RULE = ('Hypothesis: union of C01\'s trees/layouts/mutations, C03\'s prior '
        'states, C09\'s grammar/mutation texts placed as top-level or '
        'sub-Manifest of a small tree, C19\'s repositories, plus a catalogue '
        'of legal-but-odd inputs (duplicate IGNORE lines, unknown and '
        'unsupported hash names, out-of-range/surrogate escapes, escaped '
        'absolute paths, entries naming directories or lying beneath a '
        'regular file, entries for FIFOs/dangling links, MANIFEST entries '
        'naming data or missing files, unreferenced Manifests met by '
        'sub-directory updates, "files" oddities under old-ebuild, '
        'metadata/timestamp already listed, corrupt or empty compressed '
        'Manifests, very long names, Manifest as a directory). Commands run '
        'through gemato.cli.main in-process: verify (+-k, +-x, sub-paths), '
        'update/create with each profile and hash sets (whole tree and '
        'sub-directories), hash. Oracle: exit status 0/1 (1 only with a '
        'logged error), or an OSError carrying an errno; any other '
        'exception type escaping main is a violation, bucketed by '
        '(type, innermost gemato function). Non-trivial: the command '
        'reached gemato code past argument parsing and the input holds a '
        'catalogue item, a mutation or a generated text; distinct by '
        'descriptor hash.')
ASSUMPTIONS = [
    'Manifest texts are valid UTF-8 and file names are valid UTF-8 (the '
    'property quantifies over UTF-8 text); lone surrogates appear only '
    'through \\uD800-style escapes.',
    'An OSError with an errno raised for an object of the scratch tree '
    'counts as a genuine operating-system error.',
]

MD5E = 'd41d8cd98f00b204e9800998ecf8427e'
ODD = [
    'dup-ignore-same', 'dup-ignore-parent-child', 'unknown-hash-entry',
    'unknown-hash-option', 'whirlpool', 'surrogate-escape',
    'escape-out-of-range', 'escaped-absolute', 'entry-names-dir',
    'entry-beneath-file', 'entry-fifo', 'entry-dangling',
    'manifest-entry-data-file', 'manifest-entry-missing',
    'unreferenced-manifest-subdir', 'files-regular-old-ebuild',
    'files-dir-outside-package', 'timestamp-listed', 'corrupt-gz',
    'corrupt-gz-unregistered', 'empty-gz', 'long-name', 'manifest-is-dir',
    'aux-outside-files', 'dist-with-slash-escaped', 'timestamp-year-0',
    'negative-size', 'size-mismatch-zero', 'ignore-and-data',
    'misc-vs-data-dup', 'manifest-self-reference',
    'bz2-garbage', 'xz-truncated', 'entry-dotdot', 'top-symlink-loop',
    'two-timestamps', 'timestamp-in-sub-manifest', 'top-level-compressed',
    'invalid-utf8-top', 'invalid-utf8-sub', 'invalid-utf8-unregistered',
]


def base_tree(root):
    """A small consistent tree: Manifest, a file, a sub-directory with a
    sub-Manifest."""
    os.makedirs(os.path.join(root, 'sub', 'deep'))
    os.makedirs(os.path.join(root, 'other'))
    for p in ('a', 'sub/b', 'sub/deep/c', 'other/d'):
        with open(os.path.join(root, p), 'w') as f:
            f.write('')
    sub = f'DATA b 0 MD5 {MD5E}\nDATA deep/c 0 MD5 {MD5E}\n'
    with open(os.path.join(root, 'sub', 'Manifest'), 'w') as f:
        f.write(sub)
    import hashlib
    top = (f'DATA a 0 MD5 {MD5E}\nDATA other/d 0 MD5 {MD5E}\n'
           f'MANIFEST sub/Manifest {len(sub)} MD5 '
           f'{hashlib.md5(sub.encode()).hexdigest()}\n')
    with open(os.path.join(root, 'Manifest'), 'w') as f:
        f.write(top)


def append(root, rel, text):
    with open(os.path.join(root, rel), 'a') as f:
        f.write(text)


def apply_odd(root, kind):
    """Returns a dict of hints (profile, extra args)."""
    hints = {}
    if kind == 'dup-ignore-same':
        append(root, 'Manifest', 'IGNORE zz\nIGNORE zz\n')
    elif kind == 'dup-ignore-parent-child':
        append(root, 'Manifest', 'IGNORE sub/zz\n')
        append(root, 'sub/Manifest', 'IGNORE zz\n')
    elif kind == 'unknown-hash-entry':
        append(root, 'Manifest', 'DATA other/x 0 FOO abc\n')
        open(os.path.join(root, 'other/x'), 'w').close()
    elif kind == 'unknown-hash-option':
        hints['hashes'] = 'FOO SHA1'
    elif kind == 'whirlpool':
        append(root, 'Manifest', f'DATA other/w 0 WHIRLPOOL {"0" * 128}\n')
        open(os.path.join(root, 'other/w'), 'w').close()
        hints['hashes'] = 'WHIRLPOOL'
    elif kind == 'surrogate-escape':
        append(root, 'Manifest', f'DATA sur\\uD800x 0 MD5 {MD5E}\n')
    elif kind == 'escape-out-of-range':
        append(root, 'Manifest', f'DATA o\\U00110000 0 MD5 {MD5E}\n')
    elif kind == 'escaped-absolute':
        append(root, 'Manifest', f'AUX \\x2Fetc/passwd 0 MD5 {MD5E}\n')
    elif kind == 'entry-names-dir':
        append(root, 'Manifest', f'DATA other 0 MD5 {MD5E}\n')
    elif kind == 'entry-beneath-file':
        append(root, 'Manifest', f'DATA a/below 0 MD5 {MD5E}\n')
    elif kind == 'entry-fifo':
        os.mkfifo(os.path.join(root, 'other', 'pipe'))
        append(root, 'Manifest', f'DATA other/pipe 0 MD5 {MD5E}\n')
    elif kind == 'entry-dangling':
        os.symlink('nowhere', os.path.join(root, 'other', 'dangling'))
        append(root, 'Manifest', f'DATA other/dangling 0 MD5 {MD5E}\n')
    elif kind == 'manifest-entry-data-file':
        append(root, 'Manifest', f'MANIFEST other/d 0 MD5 {MD5E}\n')
    elif kind == 'manifest-entry-missing':
        append(root, 'Manifest', f'MANIFEST other/Manifest 0 MD5 {MD5E}\n')
    elif kind == 'unreferenced-manifest-subdir':
        with open(os.path.join(root, 'other', 'Manifest'), 'w') as f:
            f.write(f'DATA d 0 MD5 {MD5E}\n')
        hints['subdir'] = 'other'
    elif kind == 'files-regular-old-ebuild':
        os.makedirs(os.path.join(root, 'cat', 'pkg'))
        open(os.path.join(root, 'cat/pkg/pkg-1.ebuild'), 'w').close()
        open(os.path.join(root, 'cat/pkg/files'), 'w').close()
        hints['profile'] = 'old-ebuild'
    elif kind == 'files-dir-outside-package':
        os.makedirs(os.path.join(root, 'cat', 'notpkg', 'files'))
        open(os.path.join(root, 'cat/notpkg/files/x.patch'), 'w').close()
        hints['profile'] = 'old-ebuild'
    elif kind == 'timestamp-listed':
        os.makedirs(os.path.join(root, 'metadata'))
        open(os.path.join(root, 'metadata/timestamp'), 'w').close()
        append(root, 'Manifest', f'DATA metadata/timestamp 0 MD5 {MD5E}\n')
        hints['profile'] = 'ebuild'
    elif kind in ('corrupt-gz', 'corrupt-gz-unregistered', 'empty-gz',
                  'bz2-garbage', 'xz-truncated'):
        import hashlib
        if kind == 'empty-gz':
            data = b''
            name = 'other/Manifest.gz'
        elif kind == 'bz2-garbage':
            data = b'BZh91AY&SY garbage'
            name = 'other/Manifest.bz2'
        elif kind == 'xz-truncated':
            data = R.compress(f'DATA d 0 MD5 {MD5E}\n'.encode(), 'xz')[:-9]
            name = 'other/Manifest.xz'
        else:
            data = R.compress(f'DATA d 0 MD5 {MD5E}\n'.encode(), 'gz')[:-6]
            name = 'other/Manifest.gz'
        with open(os.path.join(root, name), 'wb') as f:
            f.write(data)
        if kind != 'corrupt-gz-unregistered':
            append(root, 'Manifest',
                   f'MANIFEST {name} {len(data)} MD5 '
                   f'{hashlib.md5(data).hexdigest()}\n')
    elif kind == 'long-name':
        name = 'n' * 250
        open(os.path.join(root, 'other', name), 'w').close()
        append(root, 'Manifest', f'DATA other/{"m" * 300} 0 MD5 {MD5E}\n')
    elif kind == 'manifest-is-dir':
        os.makedirs(os.path.join(root, 'other', 'Manifest'))
    elif kind == 'aux-outside-files':
        append(root, 'Manifest', f'AUX ../a 0 MD5 {MD5E}\n')
    elif kind == 'dist-with-slash-escaped':
        append(root, 'Manifest', f'DIST a\\x2Fb 0 MD5 {MD5E}\n')
    elif kind == 'timestamp-year-0':
        append(root, 'Manifest', 'TIMESTAMP 0001-01-01T00:00:00Z\n')
        hints['incremental'] = True
    elif kind == 'negative-size':
        append(root, 'Manifest', f'DATA neg -1 MD5 {MD5E}\n')
    elif kind == 'size-mismatch-zero':
        append(root, 'Manifest', f'DATA other/d 5 MD5 {MD5E}\n')
    elif kind == 'ignore-and-data':
        append(root, 'Manifest', 'IGNORE a\n')
    elif kind == 'misc-vs-data-dup':
        append(root, 'Manifest', f'MISC a 0 MD5 {MD5E}\n')
    elif kind == 'manifest-self-reference':
        append(root, 'sub/Manifest', f'MANIFEST Manifest 0 MD5 {MD5E}\n')
    elif kind == 'manifest-cycle':
        append(root, 'sub/Manifest', f'MANIFEST ../Manifest 0 MD5 {MD5E}\n')
    elif kind == 'entry-dotdot':
        append(root, 'sub/Manifest', f'DATA ../a 0 MD5 {MD5E}\n')
    elif kind == 'two-timestamps':
        append(root, 'Manifest', 'TIMESTAMP 2017-01-01T01:01:01Z\n'
               'TIMESTAMP 2018-02-02T02:02:02Z\n')
        hints['profile'] = 'ebuild'
        hints['whole_tree_update'] = True
    elif kind == 'timestamp-in-sub-manifest':
        append(root, 'Manifest', 'TIMESTAMP 2017-01-01T01:01:01Z\n')
        hints['profile'] = 'old-ebuild'
        hints['whole_tree_update'] = True
    elif kind == 'top-symlink-loop':
        os.symlink('.', os.path.join(root, 'other', 'self'))
    elif kind in ('invalid-utf8-top', 'invalid-utf8-sub',
                  'invalid-utf8-unregistered'):
        # bytes that are not UTF-8 in a Manifest file
        bad = b'DATA caf\xe9 0 MD5 ' + MD5E.encode() + b'\n'
        if kind == 'invalid-utf8-top':
            with open(os.path.join(root, 'Manifest'), 'ab') as f:
                f.write(bad)
        else:
            import hashlib
            with open(os.path.join(root, 'other', 'Manifest'), 'wb') as f:
                f.write(bad)
            if kind == 'invalid-utf8-sub':
                append(root, 'Manifest',
                       f'MANIFEST other/Manifest {len(bad)} MD5 '
                       f'{hashlib.md5(bad).hexdigest()}\n')
    elif kind == 'top-level-compressed':
        # the tree's top-level Manifest is stored as Manifest.gz only
        top = os.path.join(root, 'Manifest')
        if os.path.isfile(top):
            with open(top, 'rb') as f:
                data = f.read()
            os.unlink(top)
            with open(top + '.gz', 'wb') as f:
                f.write(R.compress(data, 'gz'))
    return hints


@st.composite
def command(draw, dirs, default_hashes=True):
    cmd = draw(st.sampled_from(['verify', 'verify', 'update', 'update',
                                'create', 'hash']))
    c = {'cmd': cmd, 'sub': draw(st.sampled_from(dirs)),
         'k': draw(st.booleans()), 'x': draw(st.booleans()),
         'profile': draw(st.sampled_from([None, 'default', 'ebuild',
                                          'old-ebuild'])),
         'hashes': draw(st.sampled_from(
             [None, 'MD5', 'SHA1 SHA256', 'BLAKE2B SHA512', 'FOO',
              'WHIRLPOOL', 'MD5 MD5'])),
         'extra': draw(st.sampled_from([[], [], ['-f'], ['-t'], ['-i'],
                                        ['-c', '0'], ['-c', '0', '-C',
                                                      'nosuchformat'],
                                        ['-s'], ['-S']]))}
    return c


@st.composite
def case(draw):
    kind = draw(st.sampled_from(['c01', 'c03', 'text', 'odd', 'odd', 'odd',
                                 'repo']))
    d = {'kind': kind}
    dirs = ['']
    if kind == 'c01':
        d['c01'] = draw(c01.case())
        dirs += [n['p'] for n in d['c01']['tree']['nodes'] if n['t'] == 'd']
    elif kind == 'c03':
        d['state'] = draw(updgen.prior_state())
        dirs += [n['p'] for n in d['state']['tree']['nodes']
                 if n['t'] == 'd']
    elif kind == 'text':
        d['text'] = draw(st.one_of(c09.grammar_text(), c09.mutated_text()))
        d['where'] = draw(st.sampled_from(['top', 'sub', 'sub-gz',
                                           'unregistered']))
        dirs += ['sub', 'other']
    elif kind == 'repo':
        d['repo'] = draw(repogen.repo())
        d['edits'] = draw(repogen.repo_edits(d['repo'], max_ops=3))
        dirs += sorted({os.path.dirname(p) for p in d['repo']['files']})[:6]
    else:
        d['odd'] = draw(st.lists(st.sampled_from(ODD), min_size=1,
                                 max_size=2, unique=True))
        # (applied last: the other kinds append to the plain Manifest)
        d['odd'].sort(key=lambda k: k == 'top-level-compressed')
        dirs += ['sub', 'other', 'sub/deep']
    d['cmds'] = [draw(command(dirs)) for _ in range(draw(st.integers(1, 3)))]
    return d


def strat(tier):
    return case()


def build(desc, root):
    hints = {}
    kind = desc['kind']
    if kind == 'c01':
        c01.build(desc['c01'], root)
    elif kind == 'c03':
        updgen.build_prior(desc['state'], root)
    elif kind == 'text':
        base_tree(root)
        text = desc['text']
        try:
            data = text.encode('utf8')
        except UnicodeEncodeError:
            data = text.encode('utf8', 'replace')
        import hashlib
        if desc['where'] == 'top':
            with open(os.path.join(root, 'Manifest'), 'wb') as f:
                f.write(data)
        else:
            name = 'other/Manifest'
            if desc['where'] == 'sub-gz':
                name += '.gz'
                data = R.compress(data, 'gz')
            with open(os.path.join(root, name), 'wb') as f:
                f.write(data)
            if desc['where'] != 'unregistered':
                append(root, 'Manifest',
                       f'MANIFEST {name} {len(data)} MD5 '
                       f'{hashlib.md5(data).hexdigest()}\n')
    elif kind == 'repo':
        repogen.materialize(desc['repo'], root)
        hints['repo'] = True
    else:
        base_tree(root)
        for k in desc['odd']:
            try:
                hints.update(apply_odd(root, k))
            except OSError:
                pass        # two catalogue items that exclude each other
    return hints


def dual_listed(root):
    """Paths that some Manifest lists with a MANIFEST entry and some
    Manifest lists with a DATA-like entry (input class of a recorded
    finding)."""
    man, dat = set(), set()
    for dirpath, dirnames, filenames in os.walk(root):
        for fn in filenames:
            if not fn.startswith('Manifest'):
                continue
            rel = os.path.relpath(os.path.join(dirpath, fn), root)
            try:
                entries = R.parse_strict(R.read_manifest_file(
                    os.path.join(root, rel)))
            except Exception:
                continue
            d = os.path.dirname(rel)
            for e in entries:
                if e.tag == 'MANIFEST':
                    man.add(os.path.normpath(os.path.join(d, e.path)))
                elif e.tag in ('DATA', 'MISC', 'EBUILD', 'AUX'):
                    dat.add(os.path.normpath(os.path.join(d, e.path)))
    return man & dat


def short_hash(argv, desc):
    import hashlib
    return hashlib.sha1(repr((argv[:2], desc['kind'],
                              desc.get('odd'))).encode()).hexdigest()


def run_program(argv, root, classes):
    """Run bin/gemato as a program (read-only commands only)."""
    import subprocess
    import sys
    prog = os.path.join(harness.REPO, 'bin', 'gemato')
    p = subprocess.run([sys.executable, prog] + argv, capture_output=True,
                       text=True, env=dict(os.environ,
                                           PYTHONPATH=harness.REPO))
    classes.append('program-run')
    if p.returncode in (0, 1, 2):
        if p.returncode == 1 and not p.stderr.strip():
            return violation(
                f'bin/gemato {argv[0]}: exit status 1 without any message',
                sig='program-silent-failure', classes=classes)
        return None
    if 'Traceback' in p.stderr:
        last = p.stderr.strip().splitlines()[-1]
        typ = last.split(':')[0].strip()
        if typ in ('OSError', 'NotADirectoryError', 'FileNotFoundError',
                   'PermissionError', 'IsADirectoryError', 'OSError',
                   'FileExistsError') or 'Errno' in last:
            return None
        return violation(
            f'bin/gemato {" ".join(argv[:2])} ...: exit status '
            f'{p.returncode} with a traceback: {last}',
            sig='program-traceback:' + typ, classes=classes)
    return violation(f'bin/gemato exit status {p.returncode}: '
                     f'{p.stderr[-300:]}', sig='program-exit-status',
                     classes=classes)


def genuinely_os(exc, root):
    return (isinstance(exc, OSError) and exc.errno is not None)


def run_case(desc):
    root = harness.fresh_dir('c18')
    try:
        hints = build(desc, root)
        classes = ['kind:' + desc['kind']]
        for k in desc.get('odd', []):
            classes.append('odd:' + k)
        reached = False
        for ci, c in enumerate(desc['cmds']):
            sub = c['sub'] if os.path.isdir(os.path.join(root, c['sub'])) \
                else ''
            if ci == 0 and 'subdir' in hints:
                sub = hints['subdir']
            if hints.get('whole_tree_update') and c['cmd'] == 'update':
                sub = ''
            target = os.path.join(root, sub) if sub else root
            profile = c['profile'] or hints.get('profile')
            hashes = c['hashes'] or hints.get('hashes')
            if c['cmd'] == 'verify':
                argv = ['verify'] + (['-k'] if c['k'] else []) + (
                    ['-x'] if c['x'] else []) + [target]
            elif c['cmd'] == 'hash':
                # (reading a FIFO without a writer would block, like cat)
                files = [os.path.join(target, n) for n in
                         sorted(os.listdir(target))
                         if os.path.isfile(os.path.join(target, n))][:2] \
                    or [os.path.join(root, 'Manifest')]
                argv = ['hash', '-H', hashes or 'MD5'] + files
            else:
                if c['cmd'] == 'create':
                    target = root
                    if desc['kind'] == 'repo' and ci > 0:
                        continue
                argv = [c['cmd']]
                if profile:
                    argv += ['-p', profile]
                if hashes or not profile or profile == 'default':
                    argv += ['--hashes', hashes or 'MD5']
                extra = list(c['extra'])
                if c['cmd'] == 'create' and '-i' in extra:
                    extra.remove('-i')
                if hints.get('incremental') and c['cmd'] == 'update':
                    extra = ['-i']
                argv += extra + (['-x'] if c['x'] else []) + [target]
            if desc['kind'] == 'repo' and ci == 1:
                repogen.apply_edits(root, desc['edits'])
            classes.append('cmd:' + c['cmd'])
            if c['cmd'] == 'verify' and short_hash(argv, desc)[:2] in (
                    '00', '01', '02', '03'):
                # a sample also through the real program, for the exit status
                v = run_program(argv, root, classes)
                if v is not None:
                    return v
            dual = dual_listed(root)
            ignored_paths = []
            try:
                import refscan
                ignored_paths = refscan.load_all(root).ignores
            except Exception:
                pass
            oc, records, out = gem.cli(argv)
            short = ' '.join(a if not a.startswith(root) else
                             '<tree>' + a[len(root):] for a in argv)
            if oc.kind == 'exit':
                if oc.value == 2:
                    classes.append('usage-error')
                    continue
                return violation(
                    f'`gemato {short}`: SystemExit({oc.value!r})',
                    sig='SystemExit', classes=classes)
            reached = True
            if oc.escaped and oc.kind in ('gemato', 'mismatch',
                                          'incompatible', 'loop', 'xdev'):
                return violation(
                    f'`gemato {short}`: a library exception left main() '
                    f'instead of being logged with exit status 1\n'
                    + buckets.describe(oc.exc),
                    sig='library-exception-escaped-main', classes=classes)
            if oc.kind in ('return', 'gemato', 'mismatch', 'incompatible',
                           'loop', 'xdev'):
                rc = oc.value
                if rc not in (0, 1, None):
                    return violation(
                        f'`gemato {short}` returned {rc!r}',
                        sig='odd-exit-status', classes=classes)
                if rc == 1 and not gem.error_records(records):
                    return violation(
                        f'`gemato {short}` exited 1 without logging an '
                        f'error', sig='silent-failure:' + c['cmd'],
                        classes=classes)
                continue
            if oc.kind == 'oserror' and genuinely_os(oc.exc, root):
                classes.append('oserror:' + errno.errorcode.get(
                    oc.exc.errno, str(oc.exc.errno)))
                continue
            sig = buckets.signature(oc.exc).replace('exc:', '')
            msg = str(oc.exc)
            if sig == 'AssertionError:save_manifests' and msg.startswith(
                    'Unlinked but updated Manifests'):
                import re
                names = set(re.findall(r"'([^']*)'", msg))
                if names and names <= dual:
                    sig += ':path-listed-as-manifest-and-as-file'
                elif names and names <= {'Manifest.gz', 'Manifest.bz2',
                                         'Manifest.lzma', 'Manifest.xz'}:
                    # (the create itself, or any update after it)
                    sig += ':create-next-to-compressed-top-level'
                elif names and all(
                        any(c.startswith('.') for c in n.split('/'))
                        or any(n == i or n.startswith(i + '/')
                               for i in ignored_paths) for n in names):
                    sig += ':manifest-in-hidden-or-ignored-directory'
            # input-class predicates of the recorded findings
            if (sig == 'AssertionError:update_entries_for_directory'
                    and profile == 'old-ebuild' and not msg):
                sig += ':old-ebuild-files-dir-without-package-manifest'
            elif (sig == 'NotImplementedError:update_entries_for_directory'
                    and 'now-ignored path' in msg):
                sig += ':now-ignored-path'
            elif (sig in ('ValueError:open_potentially_compressed_path',
                          'UnicodeEncodeError:open_potentially_compressed'
                          '_path')
                    and ('null byte' in msg or 'surrogates not allowed'
                         in msg)):
                sig = ('ValueError:open_potentially_compressed_path:'
                       'manifest-entry-path-unnameable')
            return violation(
                f'`gemato {short}` (input kind {desc["kind"]} '
                f'{desc.get("odd", "")}): internal error escaped main()\n'
                + buckets.describe(oc.exc), sig=sig, classes=classes)
        return ok(nontrivial=reached, classes=sorted(set(classes)))
    finally:
        logging.getLogger().setLevel(logging.WARNING)
        harness.rmtree(root)


_home = {}


def prepare(tier):
    # -s/-S make gemato call gpg: give it an empty scratch keyring
    import gpgfix
    if gpgfix.have_gpg():
        _home['h'] = gpgfix.GpgHome()
        os.environ['GNUPGHOME'] = _home['h'].home


def worker_cleanup():
    if 'h' in _home:
        _home['h'].close()


PARTS = [
    Part('commands', run_case, strategy=strat, prepare=prepare,
         examples={'quick': 30000, 'thorough': 400000},
         budget={'quick': 70, 'thorough': 1200}),
]

LEVEL_TEXT = ('Generated and catalogued odd inputs run through the CLI '
              'entry point in-process; every exception type that escapes is '
              'bucketed by root cause (type, innermost gemato function) and '
              'compared with the allowed outcomes.')
LEVEL_NOTE = ('Trusted: the outcome classification in gem.cli; generators of '
              'C01/C03/C09/C19 are reused. Known internal errors are listed '
              'in known_findings.json by bucket and the search continues '
              'behind them.')
TECHNIQUE = ('property-based robustness testing / fuzzing (Hypothesis '
             'structured generators + odd-input catalogue) with exception '
             'bucketing')
