# C07 - Every offending path is reported and the exit status reflects any
#       failure (keep-going mode).

import contextlib
import hashlib
import os

from hypothesis import strategies as st

import gem
import harness
import layout
import mutate
import refverify
import shim
import treegen
from harness import Part, ok, violation, skip
from treegen import BASE_MTIME

PROPERTY = 'C07'
LEVEL = 'exploration'
RULE = ('Hypothesis: C01\'s tree and layout generators (<= 5 dirs, <= 8 '
        'files) biased to 2..8 simultaneous discrepancies (stray files '
        'visible/hidden/under IGNORE, stray directories, deleted, resized, '
        'same-size-changed and re-typed files, lying entries, missing '
        'directories), zero-discrepancy controls, optional symlink loop; '
        'verified sub-path; handler policy in {always False, always True, '
        'always None, per-path mix of False/True/None, raises on the j-th '
        'call}; library API and `gemato verify -k`. Oracle: offending-path '
        'set O from the reference verifier: handler paths H have no '
        'repetition, H >= O minus dont-care, H <= O + dont-care; result is '
        'False iff some invocation returned exactly False; loops and '
        'conflicting duplicates are still raised. Non-trivial: >= 2 '
        'offending paths in >= 2 directories; distinct by descriptor hash.')
ASSUMPTIONS = [
    'refverify.py defines the offending set; dangling symlinks without '
    'entry, entries beneath IGNORE and "IGNORE dir/" are DONT-CARE members.',
    'When an object is genuinely inaccessible (ENOTDIR) the OS error may '
    'pre-empt reporting; such cases make no completeness claim.',
]


class HandlerBoom(Exception):
    pass


@st.composite
def case(draw):
    spec = draw(treegen.tree_spec(max_dirs=5, max_files=8, fifos=False))
    lay = draw(layout.layout(spec, lies=True, conflicts=False))
    rendered = layout.render(lay)
    control = draw(st.integers(0, 9)) == 0
    if control:
        muts = []
    else:
        muts = draw(mutate.mutations(
            spec, lay, rendered, min_ops=2, max_ops=8,
            kinds=['stray', 'stray', 'stray', 'delete', 'delete', 'resize',
                   'same-size', 'retype', 'stray-dir', 'touch']))
    vis = treegen.visible(spec)
    ignores = [e['path'] for m in lay['manifests'] for e in m['entries']
               if e['tag'] == 'IGNORE']
    link_paths = [n['p'] for n in spec['nodes']
                  if n['t'] == 'l' and n['k'] == 'd']
    api = draw(st.sampled_from(['lib', 'lib', 'lib', 'cli']))
    dirs = [''] + sorted(
        p for p, v in vis.items() if v[0] == 'd'
        and not treegen.is_hidden(p)
        and not any(refverify.comp_prefix(i, p) for i in ignores)
        and not (api == 'cli' and any(refverify.comp_prefix(lp, p)
                                      for lp in link_paths)))
    loop = None
    if draw(st.integers(0, 11)) == 0:
        d = draw(st.sampled_from(dirs))
        loop = {'op': 'symlink', 'p': (d + '/' if d else '') + 'loop',
                'target': draw(st.sampled_from(['.', '..']))}
        if loop['p'] in vis or (d == '' and loop['target'] == '..'):
            loop = None
    if loop:
        muts = muts + [loop]
    subpath = draw(st.sampled_from(dirs)) if draw(st.integers(0, 3)) == 0 \
        else ''
    policy = draw(st.sampled_from(
        ['false', 'false', 'false', 'true', 'none', 'mix', 'mix', 'raise']))
    # the CLI takes several paths: a second one, disjoint from the first
    subpath2 = None
    if api == 'cli' and not loop:
        others = [d for d in dirs if d and subpath
                  and not refverify.comp_prefix(d, subpath)
                  and not refverify.comp_prefix(subpath, d)]
        if others and draw(st.booleans()):
            subpath2 = draw(st.sampled_from(others))
    return {'tree': spec, 'manifests': rendered, 'muts': muts,
            'subpath': subpath, 'subpath2': subpath2,
            # library: the sub-path spelled 'sub/' instead of 'sub'
            'slash': draw(st.integers(0, 3)) == 0,
            'second_first': draw(st.booleans()),
            'api': api, 'policy': policy,
            'salt': draw(st.integers(0, 99)), 'j': draw(st.integers(0, 3)),
            'tags': lay['tags'], 'loop': bool(loop),
            # harness-owned directory enumeration order: discrepancies come
            # before and after each other in every walk order
            'scandir': draw(st.sampled_from([None, 'sorted', 'reversed', 'a',
                                             'b', 'c']))}


def strat(tier):
    return case()


def policy_value(desc, path):
    p = desc['policy']
    if p in ('false', 'raise'):
        return False
    if p == 'true':
        return True
    if p == 'none':
        return None
    h = hashlib.sha1(f'{desc["salt"]}:{path}'.encode(
        'utf8', 'surrogatepass')).digest()[0]
    return (False, True, None)[h % 3]


def merged(a, b):
    """The verdict for two disjoint paths verified in one run."""
    import types
    m = types.SimpleNamespace()
    for k in ('chain_broken', 'unparsable', 'incompatible',
              'incompatible_dontcare', 'inaccessible', 'offending', 'soft',
              'dontcare'):
        x, y = getattr(a, k, None), getattr(b, k, None)
        if isinstance(x, dict) or isinstance(y, dict):
            v = dict(x or {})
            v.update(y or {})
        elif isinstance(x, (set, frozenset, list, tuple)) or isinstance(
                y, (set, frozenset, list, tuple)):
            v = list(x or []) + list(y or [])
        else:
            v = x or y
        setattr(m, k, v)
    m.summary = lambda: [a.summary(), b.summary()]
    return m


def run_case(desc):
    root = harness.fresh_dir('c07')
    try:
        treegen.materialize(desc['tree'], root)
        layout.write_manifests(desc['manifests'], root)
        mutate.apply_ops(root, desc['muts'])
        sub = desc['subpath']
        if not os.path.isdir(os.path.join(root, sub)):
            return skip('subpath-vanished')
        model = refverify.evaluate(root, 'Manifest', sub)
        classes = ['policy:' + desc['policy'], 'api:' + desc['api']]
        sub2 = desc.get('subpath2')
        if sub2 is not None and desc['api'] == 'cli':
            if not os.path.isdir(os.path.join(root, sub2)):
                return skip('subpath-vanished')
            model = merged(model, refverify.evaluate(root, 'Manifest', sub2))
            classes.append('two-paths')
        hard = set(model.offending)
        may = hard | set(model.soft) | set(model.dontcare)
        has_loop = any('loop' in v for v in model.dontcare.values())
        if has_loop:
            classes.append('loop')
        calls = []
        returned = []

        def handler(err):
            calls.append(os.path.normpath(err.path))
            if desc['policy'] == 'raise' and len(calls) - 1 == desc['j']:
                raise HandlerBoom(err.path)
            r = policy_value(desc, os.path.normpath(err.path))
            returned.append(r)
            return r

        order = shim.ScandirOrder(desc['scandir']) if desc.get('scandir') \
            else contextlib.nullcontext()
        if desc['api'] == 'lib':
            spelled = sub + '/' if (sub and desc.get('slash')) else sub
            if spelled != sub:
                classes.append('trailing-slash')
            with order:
                oc = gem.verify_lib(root, spelled, fail_handler=handler)
            what = (f'assert_directory_verifies({sub!r}, policy '
                    f'{desc["policy"]})')
        else:
            with order:
                cli_paths = [os.path.join(root, sub) if sub else root]
                if sub2 is not None:
                    cli_paths.append(os.path.join(root, sub2))
                    if desc.get('second_first'):
                        cli_paths.reverse()
                oc, records, _ = gem.cli(['verify', '-k'] + cli_paths)
            calls = [os.path.normpath(p) for p in gem.mismatch_paths(records)]
            returned = [False] * len(calls)
            what = f'`gemato verify -k` of {sub!r}' + (
                f' and {sub2!r} (second first: {desc.get("second_first")})'
                if sub2 is not None else '')
            if oc.kind == 'gemato':
                if gem.junk_manifest_above(
                        root, [sub] + ([sub2] if sub2 is not None else [])):
                    # the CLI's upward search met a file named Manifest
                    # that is not one (C15's subject, not this property's)
                    return ok(classes=classes + ['junk-manifest-on-the-way-up'],
                              dontcare=True)

        dirs_hit = {refverify.dirname(p) for p in hard}
        nontrivial = len(hard) >= 2 and len(dirs_hit) >= 2
        classes.append('offending:%s' % (
            '0' if not hard else '1' if len(hard) == 1 else '2+'))

        # structural problems first
        if model.chain_broken or model.unparsable:
            if oc.kind in ('mismatch', 'gemato'):
                return ok(classes=classes + ['chain-broken'])
            return violation(
                f'{what}: broken Manifest chain {model.chain_broken!r} but '
                f'{oc!r}', sig='chain-not-raised', classes=classes)
        if model.incompatible:
            if oc.kind == 'incompatible':
                return ok(classes=classes + ['incompatible'])
            return violation(
                f'{what}: conflicting duplicates {model.incompatible!r} '
                f'but {oc!r}', sig='incompatible-not-raised',
                classes=classes)
        if oc.kind == 'incompatible' and model.incompatible_dontcare:
            return ok(classes=classes, dontcare=True)
        if model.inaccessible:
            if oc.kind in ('oserror', 'return', 'mismatch'):
                return ok(classes=classes + ['inaccessible'], dontcare=True)
        if has_loop:
            if oc.kind == 'loop':
                return ok(nontrivial=nontrivial, classes=classes)
            if oc.kind == 'other' and isinstance(oc.exc, HandlerBoom):
                return ok(classes=classes)
            return violation(
                f'{what}: the tree contains a symlink loop '
                f'({[p for p, v in model.dontcare.items() if "loop" in v]}) '
                f'but the result was {oc!r} (handler calls: {calls!r})',
                sig='loop-not-raised', classes=classes)
        if desc['policy'] == 'raise' and desc['api'] == 'lib':
            if len(calls) > desc['j']:
                if oc.kind == 'other' and isinstance(oc.exc, HandlerBoom):
                    return ok(nontrivial=nontrivial, classes=classes)
                return violation(
                    f'{what}: exception raised by the handler on call '
                    f'{desc["j"]} did not propagate: {oc!r}',
                    sig='handler-exception-swallowed', classes=classes)
        if oc.kind != 'return':
            return violation(
                f'{what}: unexpected {oc.describe()}; reference '
                f'{model.summary()!r}', sig='unexpected:' + oc.kind,
                classes=classes)
        # completeness / exactness of reporting
        if len(set(calls)) != len(calls):
            dup = sorted({p for p in calls if calls.count(p) > 1})
            return violation(
                f'{what}: handler invoked more than once for {dup!r}',
                sig='reported-twice', classes=classes)
        missing = sorted(hard - set(calls))
        if missing:
            return violation(
                f'{what}: offending paths never reported: {missing!r}; '
                f'reported {calls!r}; reference {model.summary()!r}',
                sig='offending-not-reported', classes=classes)
        extra = sorted(set(calls) - may)
        if extra:
            return violation(
                f'{what}: handler invoked for matching paths {extra!r}; '
                f'reference {model.summary()!r}',
                sig='matching-path-reported', classes=classes)
        any_false = any(r is False for r in returned)
        if desc['api'] == 'lib':
            got_fail = oc.value is False
            if oc.value not in (True, False):
                return violation(f'{what} returned {oc.value!r}',
                                 sig='non-boolean-result', classes=classes)
        else:
            got_fail = oc.value != 0
        if got_fail != any_false:
            return violation(
                f'{what}: result {oc.value!r} but handler returned '
                f'{returned!r} for {calls!r}', sig='result-mismatch',
                classes=classes)
        return ok(nontrivial=nontrivial, classes=classes,
                  dontcare=bool(model.dontcare or model.soft))
    finally:
        harness.rmtree(root)


PARTS = [
    Part('keepgoing', run_case, strategy=strat,
         examples={'quick': 16000, 'thorough': 300000},
         budget={'quick': 60, 'thorough': 900}),
]

LEVEL_TEXT = ('Generated multi-discrepancy trees; the complete set of '
              'handler invocations is compared with the offending set of an '
              'independent reference verifier, for several handler '
              'policies, library and CLI.')
LEVEL_NOTE = ('Trusted: refverify.py as the definition of the offending set. '
              'Cross-device structural errors in keep-going mode are covered '
              'under C16.')
TECHNIQUE = ('model-based property testing (Hypothesis): handler-call '
             'multiset vs reference offending set')
