# C17 - Reported digests and sizes are those of the whole file content.

import contextlib
import hashlib
import io
import os
import shutil
import subprocess

from hypothesis import strategies as st

import buckets
import harness
import refmanifest as R
from harness import Part, ok, violation, skip

from gemato.exceptions import UnsupportedHash, GematoException
from gemato.hash import hash_file, hash_path, hash_bytes
from gemato.verify import get_file_metadata
import gemato.cli

PROPERTY = 'C17'
LEVEL = 'exploration'
RULE = ('(lengths) every content length 0..300, 65534..65538, '
        '131070..131074, 1048574..1048578 and 2 MiB +-1 (thorough; quick '
        'drops 2 MiB) x every fixed-length hashlib algorithm and every '
        'Manifest hash name x 7 size hints x 2 reader kinds, content = '
        'deterministic pseudo-random stream; (schedules) Hypothesis: random '
        'content/length, random short-read schedules on a BufferedReader '
        'over a short-reading raw object and on a bare read/read1 object, '
        'random hint; (files) real files through hash_path, '
        'get_file_metadata, `gemato hash`, cross-checked with coreutils; '
        '(unsupported) generated names outside the tables. Oracle: one-shot '
        'hashlib.new(alg, data) with an independent Manifest-name table. '
        'Non-trivial: length > 0; distinct by descriptor.')
ASSUMPTIONS = [
    'hashlib one-shot digests (and coreutils where present) are the standard '
    'digests.',
    'XOF algorithms (shake_*) have no fixed digest length, are reachable '
    'from no Manifest name, and are excluded (counted).',
    'read() without a size returns everything up to EOF (io contract); short '
    'results are generated only for read1()/readinto().',
]

FIXED_ALGS = sorted(a for a in hashlib.algorithms_available
                    if not a.lower().startswith('shake'))
XOF_ALGS = sorted(a for a in hashlib.algorithms_available
                  if a.lower().startswith('shake'))
MANIFEST_NAMES = sorted(R.HASHLIB_NAME)
MAX_SLURP = 1048576


def content(n, salt=0):
    if n == 0:
        return b''
    return hashlib.shake_128(b'gemato-verif-%d-%d' % (n, salt)).digest(n)


class ShortRaw(io.RawIOBase):
    """Raw stream returning short chunks according to a cyclic schedule."""

    def __init__(self, data, schedule):
        self.data = data
        self.pos = 0
        self.schedule = schedule or [len(data) or 1]
        self.i = 0

    def readable(self):
        return True

    def readinto(self, b):
        n = self.schedule[self.i % len(self.schedule)]
        self.i += 1
        chunk = self.data[self.pos:self.pos + min(n, len(b))]
        b[:len(chunk)] = chunk
        self.pos += len(chunk)
        return len(chunk)


class BareReader:
    """Object with only read()/read1(); read1 returns short chunks."""

    def __init__(self, data, schedule):
        self.data = data
        self.pos = 0
        self.schedule = schedule or [len(data) or 1]
        self.i = 0

    def read(self, n=-1):
        if n is None or n < 0:
            r = self.data[self.pos:]
            self.pos = len(self.data)
            return r
        r = self.data[self.pos:self.pos + n]
        self.pos += len(r)
        return r

    def read1(self, n=-1):
        k = self.schedule[self.i % len(self.schedule)]
        self.i += 1
        if n is not None and n >= 0:
            k = min(k, n)
        r = self.data[self.pos:self.pos + k]
        self.pos += len(r)
        return r


def make_reader(kind, data, schedule):
    if kind == 'bytesio':
        return io.BytesIO(data)
    if kind == 'buffered':
        return io.BufferedReader(ShortRaw(data, schedule))
    return BareReader(data, schedule)


def hints_for(n):
    return sorted({0, n, 1, max(0, n - 1), n + 1, 2 ** 31, MAX_SLURP - 1,
                   MAX_SLURP, MAX_SLURP + 1})


_expect_cache = {}


def expected(data, algs, key=None):
    if key is not None and key in _expect_cache:
        return _expect_cache[key]
    exp = {a: hashlib.new(a, data).hexdigest() for a in algs}
    exp['__size__'] = len(data)
    if key is not None:
        _expect_cache.clear()
        _expect_cache[key] = exp
    return exp


def check_hash_file(data, algs, hint, kind, schedule, label):
    exp = expected(data, algs, key=(len(data), tuple(algs), label))
    f = make_reader(kind, data, schedule)
    try:
        got = hash_file(f, list(algs) + ['__size__'], _apparent_size=hint)
    except Exception as e:
        return violation(
            f'hash_file({label}, hint={hint}, reader={kind}, '
            f'schedule={schedule}) raised\n' + buckets.describe(e),
            sig='exc:' + buckets.signature(e))
    for a in list(algs) + ['__size__']:
        if got.get(a) != exp[a]:
            return violation(
                f'hash_file({label}, hint={hint}, reader={kind}, '
                f'schedule={schedule}): {a} = {got.get(a)!r}, standard '
                f'value is {exp[a]!r}',
                sig='wrong-size' if a == '__size__' else 'wrong-digest')
    return None


# --- lengths -----------------------------------------------------------------

def length_list(tier):
    ls = list(range(0, 301))
    for c in (65536, 131072, 1048576):
        ls += list(range(c - 2, c + 3))
    if tier == 'thorough':
        ls += [2097151, 2097152, 2097153, 3 * 1048576 + 17]
    return ls


def enum_lengths(tier, shard, nshards):
    ls = length_list(tier)
    # big lengths first so that they spread over the shards
    ls.sort(key=lambda n: -n)
    for i, n in enumerate(ls):
        if i % nshards == shard:
            yield {'len': n}


def run_length(desc):
    n = desc['len']
    data = content(n)
    for hint in hints_for(n):
        for kind, schedule in (('bytesio', None),
                               ('buffered', [65535, 1, 65537, 7, 4095])):
            v = check_hash_file(data, FIXED_ALGS, hint, kind, schedule,
                                f'len={n}')
            if v is not None:
                return v
            # the size alone (no checksum requested)
            v = check_hash_file(data, [], hint, kind, schedule,
                                f'len={n},size-only')
            if v is not None:
                return v
    # Manifest names, through hash_bytes for one algorithm at a time
    if n <= 300:
        for mn in MANIFEST_NAMES:
            alg = R.HASHLIB_NAME[mn]
            if alg not in hashlib.algorithms_available:
                continue
            try:
                got = hash_bytes(data, alg)
            except Exception as e:
                return violation(
                    f'hash_bytes(len={n}, {alg}) raised\n'
                    + buckets.describe(e), sig='exc:' + buckets.signature(e))
            if got != hashlib.new(alg, data).hexdigest():
                return violation(
                    f'hash_bytes(len={n}, {alg}) = {got}', sig='wrong-digest')
    return ok(nontrivial=n > 0, classes=(
        'len:0' if n == 0 else 'len:<=300' if n <= 300 else
        'len:~64Ki' if n < 100000 else 'len:~128Ki' if n < 200000 else
        'len:>=1Mi-2',))


# --- schedules ---------------------------------------------------------------

@st.composite
def schedule_case(draw):
    r = draw(st.integers(0, 9))
    if r <= 4:
        n = draw(st.integers(0, 2000))
    elif r <= 7:
        n = draw(st.sampled_from([65535, 65536, 65537, 131071, 131072,
                                  131073, 200000]))
    else:
        n = draw(st.sampled_from([1048575, 1048576, 1048577, 1200000]))
    schedule = draw(st.lists(
        st.one_of(st.integers(1, 10),
                  st.sampled_from([1, 7, 4095, 4096, 65535, 65536, 65537,
                                   1 << 20])),
        min_size=1, max_size=6))
    hint = draw(st.one_of(
        st.sampled_from([0, 1, n, max(0, n - 1), n + 1, MAX_SLURP - 1,
                         MAX_SLURP, MAX_SLURP + 1, 2 ** 31]),
        st.integers(0, 2 * MAX_SLURP)))
    kind = draw(st.sampled_from(['buffered', 'bare', 'bytesio']))
    # (an empty set asks for the size alone: size-only entries)
    algs = draw(st.lists(st.sampled_from(FIXED_ALGS), min_size=0, max_size=4,
                         unique=True))
    if algs and draw(st.integers(0, 4)) == 0:
        # the same name requested more than once
        algs = algs + [algs[0]] * draw(st.integers(1, 2))
    salt = draw(st.integers(0, 1000))
    return {'len': n, 'schedule': schedule, 'hint': hint, 'kind': kind,
            'algs': algs, 'salt': salt}


def strat_schedules(tier):
    return schedule_case()


def run_schedule(desc):
    data = content(desc['len'], desc['salt'])
    v = check_hash_file(data, desc['algs'], desc['hint'], desc['kind'],
                        desc['schedule'], f"len={desc['len']},salt={desc['salt']}")
    if v is not None:
        return v
    short = any(s < 65536 for s in desc['schedule'])
    return ok(nontrivial=desc['len'] > 0, classes=(
        'reader:' + desc['kind'], 'short-reads' if short else 'full-reads',
        'hint:' + ('zero' if desc['hint'] == 0 else
                   'true' if desc['hint'] == desc['len'] else
                   'low' if desc['hint'] < desc['len'] else 'high')))


# --- real files --------------------------------------------------------------

COREUTILS = {'md5': 'md5sum', 'sha1': 'sha1sum', 'sha256': 'sha256sum',
             'sha512': 'sha512sum', 'blake2b': 'b2sum'}


@st.composite
def file_case(draw):
    r = draw(st.integers(0, 19))
    if r <= 12:
        n = draw(st.integers(0, 3000))
    elif r <= 17:
        n = draw(st.sampled_from([65535, 65536, 65537, 131072, 131073]))
    else:
        n = draw(st.sampled_from([1048575, 1048576, 1048577]))
    names = draw(st.lists(st.sampled_from(list(R.USABLE_HASHES)),
                          min_size=0, max_size=5, unique=True))
    if names and draw(st.integers(0, 5)) == 0:
        names = names + [names[-1]]     # one name twice
    return {'len': n, 'names': names, 'salt': draw(st.integers(0, 1000)),
            'coreutils': draw(st.integers(0, 9)) == 0}


def strat_files(tier):
    return file_case()


def run_file(desc):
    data = content(desc['len'], desc['salt'])
    names = desc['names']
    exp = R.digests(data, names)
    d = harness.fresh_dir('c17')
    try:
        path = os.path.join(d, 'f')
        with open(path, 'wb') as f:
            f.write(data)
        # get_file_metadata, Manifest names
        try:
            with contextlib.closing(get_file_metadata(path, names)) as g:
                vals = list(g)
        except Exception as e:
            return violation(
                f'get_file_metadata(len={desc["len"]}, {names}) raised\n'
                + buckets.describe(e), sig='exc:' + buckets.signature(e))
        if len(vals) != 6 or vals[0] is not True:
            return violation(f'get_file_metadata yields {vals!r}',
                             sig='metadata-shape')
        if vals[3] != len(data):
            return violation(
                f'st_size yield {vals[3]} for {len(data)} bytes',
                sig='wrong-size')
        got = dict(vals[5])
        if got.pop('__size__', None) != len(data):
            return violation(
                f'get_file_metadata __size__ = {vals[5].get("__size__")} for '
                f'{len(data)} bytes', sig='wrong-size')
        if got != exp:
            return violation(
                f'get_file_metadata(len={desc["len"]}) = {got!r}, standard '
                f'digests are {exp!r}', sig='wrong-digest')
        # hash_path, hashlib names
        algs = [R.HASHLIB_NAME[n] for n in names]
        got = hash_path(path, algs + ['__size__'])
        for n, a in zip(names, algs):
            if got[a] != exp[n]:
                return violation(
                    f'hash_path(len={desc["len"]}) {a} = {got[a]}, standard '
                    f'value is {exp[n]}', sig='wrong-digest')
        if got['__size__'] != len(data):
            return violation(f'hash_path __size__ = {got["__size__"]}',
                             sig='wrong-size')
        # hash_file on the real file object, with right and wrong size hints
        for hint in sorted({0, len(data), max(0, len(data) - 1),
                            len(data) + 1, 1048576, 1048577, 65536}):
            with open(path, 'rb') as f:
                got = hash_file(f, algs + ['__size__'], _apparent_size=hint)
            bad = [a for n, a in zip(names, algs) if got[a] != exp[n]]
            if bad or got['__size__'] != len(data):
                return violation(
                    f'hash_file(real file of {len(data)} bytes, hint={hint}) '
                    f'gives size {got["__size__"]} and wrong digests for '
                    f'{bad}', sig='wrong-size' if not bad else 'wrong-digest')
        # CLI
        buf = io.StringIO()
        with contextlib.redirect_stdout(buf):
            rc = gemato.cli.main(['gemato', 'hash', '-H', ' '.join(names),
                                  path])
        toks = buf.getvalue().split()
        want = ['DATA', path, str(len(data))]
        for n in sorted(set(names)):
            want += [n, exp[n]]
        if rc not in (0, None) or toks != want:
            return violation(
                f'`gemato hash -H "{" ".join(names)}"` printed {toks!r} '
                f'(rc={rc}), expected {want!r}', sig='cli-output')
        classes = ['files']
        # several paths in one invocation: every line carries the values of
        # the file it names (a large file first, a tiny one after it)
        if len(data) >= 65535:
            small = os.path.join(d, 'g')
            with open(small, 'wb') as f:
                f.write(b'tiny\n')
            exp_small = R.digests(b'tiny\n', names)
            for order in ((path, small), (small, path), (path, small, path)):
                buf = io.StringIO()
                with contextlib.redirect_stdout(buf):
                    rc = gemato.cli.main(['gemato', 'hash', '-H',
                                          ' '.join(names)] + list(order))
                lines = [ln.split() for ln in buf.getvalue().splitlines()]
                want_lines = []
                for pth in order:
                    e, n_ = (exp, len(data)) if pth == path else (
                        exp_small, 5)
                    w = ['DATA', pth, str(n_)]
                    for nm in sorted(set(names)):
                        w += [nm, e[nm]]
                    want_lines.append(w)
                if rc not in (0, None) or lines != want_lines:
                    return violation(
                        f'`gemato hash` with paths '
                        f'{[os.path.basename(x) for x in order]} (sizes '
                        f'{len(data)} and 5) printed {lines!r}, expected '
                        f'{want_lines!r}', sig='cli-output:several-paths')
            classes.append('several-paths')
        # same path, same size, same mtime, other content: a second look
        # must see the new content
        if len(data) > 0:
            st0 = os.stat(path)
            data2 = bytes([data[0] ^ 0xFF]) + data[1:]
            with open(path, 'r+b') as f:
                f.write(data2)
            os.utime(path, ns=(st0.st_atime_ns, st0.st_mtime_ns))
            exp2 = R.digests(data2, names)
            with contextlib.closing(get_file_metadata(path, names)) as g:
                vals2 = list(g)
            got2 = dict(vals2[5])
            got2.pop('__size__', None)
            h2 = hash_path(path, algs)
            if got2 != exp2 or any(h2[a] != exp2[n]
                                   for n, a in zip(names, algs)):
                return violation(
                    f'file changed in place (same size and mtime): digests '
                    f'still {got2!r}, content now hashes to {exp2!r}',
                    sig='stale-digest-after-change')
            classes.append('rehash-after-change')
            data, exp = data2, exp2
        if desc['coreutils']:
            for n in names:
                tool = COREUTILS.get(R.HASHLIB_NAME[n])
                if tool and shutil.which(tool):
                    out = subprocess.run([tool, path], capture_output=True,
                                         text=True).stdout.split()
                    classes.append('coreutils:' + tool)
                    if not out or out[0] != exp[n]:
                        return violation(
                            f'{tool} says {out[:1]}, hashlib {exp[n]}',
                            sig='oracle-disagreement')
    finally:
        harness.rmtree(d)
    return ok(nontrivial=desc['len'] > 0, classes=classes)


# --- unsupported names -------------------------------------------------------

@st.composite
def unsupported_case(draw):
    name = draw(st.one_of(
        st.sampled_from(['WHIRLPOOL', 'SHA384', 'sha256', 'Sha256', 'MD4',
                         'FOO', 'SHA3_384', 'BLAKE2', 'SIZE', 'RMD-160',
                         'md5', '', 'SHA512 ', 'STREEBOG256', 'CRC32']),
        st.text(alphabet='ABCDEFGHIJKLMNOPQRSTUVWXYZ0123456789_',
                min_size=1, max_size=10)))
    return {'name': name, 'len': draw(st.integers(0, 100)),
            'with': draw(st.lists(st.sampled_from(list(R.USABLE_HASHES)),
                                  max_size=2, unique=True))}


def strat_unsupported(tier):
    return unsupported_case()


def run_unsupported(desc):
    name = desc['name']
    data = content(desc['len'])
    names = desc['with'] + [name]
    supported = (name in R.HASHLIB_NAME
                 and R.HASHLIB_NAME[name] in hashlib.algorithms_available)
    d = harness.fresh_dir('c17u')
    try:
        path = os.path.join(d, 'f')
        with open(path, 'wb') as f:
            f.write(data)
        try:
            with contextlib.closing(get_file_metadata(path, names)) as g:
                vals = list(g)
        except UnsupportedHash:
            if supported:
                return violation(f'{name} reported unsupported',
                                 sig='supported-reported-unsupported')
            return ok(nontrivial=True, classes=('unsupported-reported',))
        except Exception as e:
            if supported:
                return violation(buckets.describe(e),
                                 sig='exc:' + buckets.signature(e))
            return violation(
                f'unsupported hash name {name!r} is not reported as '
                f'UnsupportedHash\n' + buckets.describe(e),
                sig='unsupported:' + buckets.signature(e))
        if not supported:
            return violation(
                f'unsupported hash name {name!r} silently yields '
                f'{vals[-1]!r}', sig='unsupported-accepted')
        exp = R.digests(data, sorted(set(names)))
        got = dict(vals[5])
        got.pop('__size__')
        if got != exp:
            return violation(f'{got!r} != {exp!r}', sig='wrong-digest')
        # hashlib-level names: a name hashlib does not know
        try:
            hash_file(io.BytesIO(data), ['no-such-' + name.lower()])
        except UnsupportedHash:
            pass
        except Exception as e:
            return violation(buckets.describe(e),
                             sig='unsupported:' + buckets.signature(e))
        else:
            return violation('unknown hashlib name accepted',
                             sig='unsupported-accepted')
    finally:
        harness.rmtree(d)
    return ok(nontrivial=desc['len'] > 0, classes=('supported',))


def extra_evidence(results):
    return {'algorithms': FIXED_ALGS, 'excluded_xof': XOF_ALGS,
            'manifest_names_usable': list(R.USABLE_HASHES)}


PARTS = [
    Part('lengths', run_length, enumerate=enum_lengths, exhaustive=True,
         budget={'quick': 120, 'thorough': 900}),
    Part('schedules', run_schedule, strategy=strat_schedules,
         examples={'quick': 4000, 'thorough': 80000},
         budget={'quick': 40, 'thorough': 500}),
    Part('files', run_file, strategy=strat_files,
         examples={'quick': 2500, 'thorough': 50000},
         budget={'quick': 40, 'thorough': 500}),
    Part('unsupported', run_unsupported, strategy=strat_unsupported,
         examples={'quick': 1500, 'thorough': 20000},
         budget={'quick': 30, 'thorough': 200}),
]

LEVEL_TEXT = ('Differential check against one-shot hashlib (and coreutils) '
              'over an exhaustive set of lengths around every internal '
              'threshold, all algorithms, all hint classes, plus generated '
              'short-read schedules and real files.')
LEVEL_NOTE = ('Trusted: hashlib one-shot digests, coreutils, the harness\' '
              'own Manifest-name table. Lengths above 3 MiB are not tried.')
TECHNIQUE = ('differential property-based testing against hashlib/coreutils '
             'with exhaustive length enumeration and generated read '
             'schedules')
