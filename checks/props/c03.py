# C03 - Update writes Manifests that describe the tree exactly and then
#       verify.

import os

from hypothesis import strategies as st

import buckets
import fsnap
import gem
import harness
import mutate
import refmanifest as R
import refscan
import treegen
import refverify
import shim
import updgen
from harness import Part, ok, violation, skip

PROPERTY = 'C03'
LEVEL = 'exploration'
RULE = ('(single-path) the same prior states and edits, update_entry_for_path() for every edited path (one loader or one per path) + save: every entry of the path fresh or gone, rewritten Manifests referenced correctly. (update) ' 
        'Hypothesis: tree (<= 4 dirs, <= 7 files, hostile/hidden names, file '
        'and directory symlinks) + arbitrary prior Manifest state (none = '
        'create; layouts with sub-Manifests in every format, a second '
        'Manifest in one directory, duplicates, lying entries, dropped '
        'entries, unregistered valid sub-Manifests, junk files carrying '
        'Manifest names, files edited/added/deleted after the Manifests '
        'were written, IGNORE/DIST/TIMESTAMP) + options (hash set, sort, '
        'force, compression watermark/format, whole tree or sub-directory, '
        'library or CLI) + 1..3 rounds of (0..4 edits, update, save). '
        'Oracle after every completed round: independent disk scan '
        '(refscan.py: every reachable sub-Manifest referenced with true '
        'size/digests from an ancestor-or-same directory; every visible '
        'regular file covered by exactly one entry with true size and '
        'digests for exactly the requested hash set; no entry for a '
        'vanished file) and a fresh verification. Non-trivial: the update '
        'completed and the prior state was not already exact (stale, '
        'duplicate, unregistered, unlisted, compressed, same-directory '
        'reference, or no Manifest); distinct by descriptor hash.')
ASSUMPTIONS = [
    'Rounds in which gemato raises one of its own exceptions make no claim '
    '(counted as class "gemato-exception").',
    'A second top-level-style Manifest name in the root directory, and '
    'Manifest files inside symlinked directories, are outside the domain.',
    'refscan.py / refmanifest.py / hashlib define exactness.',
]

KNOWN_SAME_DIR = 'same-dir-manifest-stale-ref'
KNOWN_DEDUP = 'dedup-removes-kept-entry'
KNOWN_ROOT_VARIANT = 'root-level-manifest-variant-not-listed'
KNOWN_DUAL = 'manifest-also-listed-as-data'
ROOT_VARIANTS = ('Manifest.gz', 'Manifest.bz2', 'Manifest.lzma',
                 'Manifest.xz')


def root_variant_strays(root):
    """Files in the top directory named like a compressed variant of the
    top-level Manifest (input class of a recorded finding)."""
    return {n for n in ROOT_VARIANTS
            if os.path.isfile(os.path.join(root, n))}


def dual_listed(root):
    """Manifest files that are listed with a MANIFEST entry and also with a
    DATA-like entry (input class of a recorded finding)."""
    man, dat = set(), set()
    for dirpath, dirnames, filenames in os.walk(root):
        for fn in filenames:
            if not (fn.startswith('Manifest') or 'manifest' in fn):
                continue
            rel = os.path.relpath(os.path.join(dirpath, fn), root)
            try:
                entries = R.parse_strict(R.read_manifest_file(
                    os.path.join(root, rel)))
            except Exception:
                continue
            d = os.path.dirname(rel)
            for e in entries:
                if e.tag == 'MANIFEST':
                    man.add(refscan.join(d, e.path))
                elif e.tag in ('DATA', 'MISC', 'EBUILD', 'AUX'):
                    dat.add(refscan.join(d, e.path))
    out = {}
    for d in man & dat:
        listed = set()
        try:
            for e in R.parse_strict(R.read_manifest_file(
                    os.path.join(root, d))):
                if e.tag not in ('DIST', 'TIMESTAMP'):
                    # (IGNOREd paths too: they lose their IGNORE when the
                    # Manifest drops out of use)
                    listed.add(refscan.join(refscan.dirname(d),
                                            e.path).rstrip('/'))
        except Exception:
            pass
        out[d] = listed
    return out


def explained_by_known(path, variants, dual):
    """Which recorded finding (if any) accounts for a problem at @path."""
    if path in variants:
        return KNOWN_ROOT_VARIANT
    for d, listed in dual.items():
        base = R.strip_compression(d)
        # the Manifest file itself (under any compression suffix), the files
        # it lists, and whatever lies in its own (non-top) directory
        if R.strip_compression(path) == base or any(
                refverify.comp_prefix(x, path) for x in listed) or (
                refscan.dirname(d) != '' and refverify.comp_prefix(
                    refscan.dirname(d), path)):
            return KNOWN_DUAL
    return None


def dedup_trigger_paths(root, with_manifests=False):
    """Paths for which the known de-duplication defect is triggered by the
    Manifest state on disk: one Manifest holds, for the same path, an entry
    a (the first one) and a later entry b with equal tag and size and
    keys(a) <= keys(b), and no Manifest in a deeper directory lists the
    path.  After merging b's checksums into a the two compare equal and
    list.remove(b) drops a instead of b."""
    import refmanifest as R
    per_manifest = {}
    for dirpath, dirnames, filenames in os.walk(root, followlinks=False):
        for fn in filenames:
            rel = os.path.relpath(os.path.join(dirpath, fn), root)
            if not (fn.startswith('Manifest') or 'manifest' in fn):
                continue
            try:
                per_manifest[rel] = R.parse_strict(R.read_manifest_file(
                    os.path.join(root, rel)))
            except Exception:
                continue
    listed = {}
    for mp, entries in per_manifest.items():
        mdir = refscan.dirname(mp)
        for e in entries:
            if e.tag in ('DIST', 'TIMESTAMP', 'IGNORE'):
                continue
            listed.setdefault(refscan.join(mdir, e.path), []).append(
                (mdir, mp, e))
    out = set()
    where = {}
    for full, lst in listed.items():
        maxdepth = max(len(mdir) for mdir, mp, e in lst)
        by_manifest = {}
        for mdir, mp, e in lst:
            if len(mdir) == maxdepth:
                by_manifest.setdefault(mp, []).append(e)
        for mp, es in by_manifest.items():
            a = es[0]
            for b in es[1:]:
                if (b.tag == a.tag and b.size == a.size
                        and set(a.checksums) <= set(b.checksums)):
                    out.add(full)
                    where.setdefault(full, set()).add(mp)
    if with_manifests:
        return where
    return out


@st.composite
def case(draw):
    state = draw(updgen.prior_state(dual_listed=True, root_junk=True))
    rounds = []
    for i in range(draw(st.integers(1, 3))):
        o = draw(updgen.update_opts(state))
        ed = draw(updgen.edits(state, retype=True)) \
            if i > 0 or draw(st.booleans()) else []
        # a file that became a directory: sometimes exactly that new
        # directory is what gets updated
        newdirs = [op['p'] for op in ed
                   if op['op'] == 'retype' and op.get('to') == 'dir'
                   and not treegen.is_hidden(op['p'])
                   # (updating a directory that an IGNORE covers has no
                   # defined result, see the recorded C18 finding)
                   and not any(refverify.comp_prefix(i.rstrip('/'), op['p'])
                               for i in state.get('ignores', []))]
        if newdirs and state['mode'] != 'none' and draw(st.booleans()):
            o['target'] = draw(st.sampled_from(newdirs))
            o.pop('target_slash', None)
        rounds.append({'edits': ed, 'opts': o})
    return {'state': state, 'rounds': rounds,
            'scandir': draw(st.sampled_from([None, 'sorted', 'reversed',
                                             'a', 'b']))}


def strat(tier):
    return case()


def has_same_dir_reference(scan):
    for mpath, refs in scan.parents.items():
        for parent, e in refs:
            if refscan.dirname(parent) == refscan.dirname(mpath):
                return True
    return False


def check_round(root, o, what, classes, trigger=frozenset(),
                rewritten=None, variants=frozenset(), dual=None):
    """Oracle after a completed update+save."""
    dual = dual or {}
    sc = refscan.scan(root, 'Manifest', o['target'], o['hashes'],
                      rewritten=rewritten)
    if sc.problems:
        kinds = sorted({k for k, p, t in sc.problems})
        sig = 'scan:' + '+'.join(kinds)
        # recorded findings, each with its input-class predicate
        why = []
        for k, p, t in sc.problems:
            if k in ('stale-entry', 'wrong-hash-set',
                     'stale-manifest-ref') and p in trigger:
                # (a Manifest listed twice by identical MANIFEST lines is
                # the same case: the surviving line is never refreshed)
                why.append(KNOWN_DEDUP)
            else:
                why.append(explained_by_known(p, variants, dual))
        if why and all(why):
            sig = sorted(set(why))[0] if len(set(why)) > 1 else why[0]
            return violation(
                f'{what}: Manifests on disk do not describe the tree: '
                f'{sc.problems[:6]!r}', sig=sig, classes=classes)
        if all(k in ('stale-entry', 'wrong-hash-set') and p in trigger
               for k, p, t in sc.problems):
            sig = KNOWN_DEDUP
        # the known defect: a Manifest referenced from another Manifest in
        # the same directory gets its parent entry refreshed before the
        # child is rewritten
        stale = [(k, p, t) for k, p, t in sc.problems
                 if k == 'stale-manifest-ref']
        if stale and len(stale) == len(sc.problems) and all(
                any(refscan.dirname(par) == refscan.dirname(p)
                    for par, e in sc.parents.get(p, [])) for k, p, t in stale):
            sig = KNOWN_SAME_DIR
        return violation(
            f'{what}: Manifests on disk do not describe the tree: '
            f'{sc.problems[:6]!r}', sig=sig, classes=classes)
    oc = gem.verify_lib(root, o['target'])
    if (oc.kind == 'mismatch' and sc.untouched_stale
            and os.path.normpath(oc.path) in sc.untouched_stale):
        # the chain above the updated sub-directory was broken before and
        # the update (rightly) did not bless it
        classes.append('stale-chain-above-left-alone')
        return None
    if oc.kind != 'return' or oc.value is not True:
        sig = 'verify-after-update:' + oc.kind
        if oc.kind == 'mismatch' and os.path.normpath(oc.path) in trigger:
            # the stale duplicate left behind by the known defect (here in a
            # place the scan does not look at, e.g. beneath "IGNORE dir/")
            sig = KNOWN_DEDUP
        elif oc.kind == 'mismatch' and explained_by_known(
                os.path.normpath(oc.path), variants, dual):
            sig = explained_by_known(os.path.normpath(oc.path), variants,
                                     dual)
        elif oc.kind in ('incompatible', 'gemato') and dual:
            sig = KNOWN_DUAL
        return violation(
            f'{what}: fresh verification of {o["target"]!r} fails: '
            f'{oc.describe()}', sig=sig, classes=classes)
    return None


def run_case(desc):
    state = desc['state']
    root = harness.fresh_dir('c03')
    try:
        updgen.build_prior(state, root)
        classes = list(state['tags'])
        completed = 0
        dual_seen = {}
        for i, rnd in enumerate(desc['rounds']):
            mutate.apply_ops(root, rnd['edits'])
            o = rnd['opts']
            if not os.path.isdir(os.path.join(root, o['target'])):
                classes.append('target-vanished')
                break
            create = (state['mode'] == 'none' and i == 0)
            trigger = dedup_trigger_paths(root)
            variants = root_variant_strays(root)
            # (what an earlier round made of such a pair stays with us)
            for dk, dv in dual_listed(root).items():
                dual_seen.setdefault(dk, set()).update(dv)
            dual = dict(dual_seen)
            if variants:
                classes.append('root-level-manifest-variant-present')
            if dual:
                classes.append('manifest-also-listed-as-data-present')
            snap0 = fsnap.snapshot(root)
            if desc.get('scandir'):
                with shim.ScandirOrder(desc['scandir']):
                    oc = updgen.run_update(root, o, create=create)
            else:
                oc = updgen.run_update(root, o, create=create)
            what = (f'round {i} ({"create" if create else "update"} '
                    f'{o["target"]!r} via {o["api"]}, hashes {o["hashes"]})')
            if oc.kind in ('gemato', 'mismatch', 'incompatible', 'loop',
                           'xdev'):
                classes.append('gemato-exception')
                break
            if oc.kind != 'return':
                # internal errors are C18's subject; counted here
                classes.append('other-exception:' + buckets.signature(oc.exc))
                break
            completed += 1
            classes.append('api:' + o['api'])
            if o['target']:
                classes.append('subdir-update')
            if o['watermark'] is not None:
                classes.append('compress-option')
            changed = set(fsnap.changed_paths(fsnap.diff(
                snap0, fsnap.snapshot(root))))
            v = check_round(root, o, what, classes, trigger, changed,
                            variants, dual)
            if v is not None:
                return v
        interesting = any(t in classes for t in (
            'stale', 'unlisted-file', 'unregistered-manifest', 'compressed',
            'same-dir-manifest', 'no-manifest', 'junk-manifest')) or any(
            t.startswith(('dup-', 'lie-')) for t in classes)
        classes.append(f'rounds-completed:{completed}')
        return ok(nontrivial=(completed > 0 and interesting),
                  classes=classes)
    finally:
        harness.rmtree(root)


# --- the single-path update API ----------------------------------------------

@st.composite
def sp_case(draw):
    state = draw(updgen.prior_state(allow_none=False, junk=False,
                                    conflicts=False))
    edits = draw(updgen.edits(state, max_ops=3, min_ops=1))
    return {'state': state, 'edits': edits,
            'hashes': draw(st.lists(st.sampled_from(updgen.HASHSETS),
                                    min_size=1, max_size=3, unique=True)),
            'force': draw(st.integers(0, 3)) == 0,
            # several paths through one loader, or a loader per path
            'one_loader': draw(st.booleans())}


def strat_sp(tier):
    return sp_case()


def run_sp(desc):
    state = desc['state']
    root = harness.fresh_dir('c03p')
    try:
        updgen.build_prior(state, root)
        mutate.apply_ops(root, desc['edits'])
        classes = list(state['tags'])
        ignores = state.get('ignores', [])
        paths = []
        for op in desc['edits']:
            p = op.get('p')
            if (op['op'] not in ('write', 'add', 'delete') or not p
                    or p in paths or treegen.is_hidden(p)
                    or any(refverify.comp_prefix(i.rstrip('/'), p)
                           for i in ignores)):
                continue
            full = os.path.join(root, p)
            if os.path.isdir(os.path.dirname(full)) and not os.path.isdir(
                    full) and not os.path.islink(full):
                paths.append(p)
        if not paths:
            return skip('no-updatable-path')
        trigger = dedup_trigger_paths(root)
        snap0 = fsnap.snapshot(root)

        def run():
            m = None
            for p in paths:
                if m is None or not desc['one_loader']:
                    if m is not None:
                        m.save_manifests(force=desc['force'])
                    m = gem.loader(root, hashes=list(desc['hashes']))
                m.update_entry_for_path(p)
            m.save_manifests(force=desc['force'])
        oc = gem.call(run)
        what = (f'update_entry_for_path for {paths!r} (hashes '
                f'{desc["hashes"]}, one loader: {desc["one_loader"]}) + '
                f'save_manifests')
        if oc.kind != 'return':
            classes.append('failed:' + oc.kind)
            return ok(classes=classes)       # diagnosed or C18's subject
        changed = set(fsnap.changed_paths(fsnap.diff(
            snap0, fsnap.snapshot(root))))
        sc = refscan.load_all(root)
        if sc.problems:
            return violation(f'{what}: {sc.problems[:4]!r}',
                             sig='single-path:unparsable', classes=classes)
        for p in paths:
            ents = sc.entries.get(p, [])
            full = os.path.join(root, p)
            if not os.path.lexists(full):
                if ents:
                    return violation(
                        f'{what}: {p!r} is gone but still listed in '
                        f'{[m for m, e in ents]!r}',
                        sig='single-path:entry-for-missing-file',
                        classes=classes)
                classes.append('deleted-path')
                continue
            if not ents:
                return violation(f'{what}: no entry for {p!r} afterwards',
                                 sig='single-path:uncovered-file',
                                 classes=classes)
            for mp, e in ents:
                kind, why = refverify.check_file(full, e.size, e.checksums)
                if kind != 'ok':
                    sig = 'single-path:stale-entry'
                    if p in trigger:
                        sig = KNOWN_DEDUP
                    return violation(
                        f'{what}: entry for {p!r} in {mp!r} is stale '
                        f'({kind}: {why}); all entries: '
                        f'{[(m, x.to_line()) for m, x in ents]!r}',
                        sig=sig, classes=classes)
            if len(ents) > 1:
                classes.append('still-listed-twice')
        # the Manifests that were rewritten are referenced correctly
        for mpath, refs in sc.parents.items():
            if mpath not in changed:
                continue
            for parent, e in refs:
                kind, why = refverify.check_file(
                    os.path.join(root, mpath), e.size, e.checksums)
                if kind != 'ok':
                    return violation(
                        f'{what}: rewritten {mpath!r} is referenced from '
                        f'{parent!r} with stale values ({kind}: {why})',
                        sig='single-path:stale-manifest-ref',
                        classes=classes)
        multi = any(len(sc.entries.get(p, [])) > 1 for p in paths)
        return ok(nontrivial=True, classes=classes + (
            ['one-loader'] if desc['one_loader'] else ['loader-per-path']))
    finally:
        harness.rmtree(root)


PARTS = [
    Part('update', run_case, strategy=strat,
         examples={'quick': 20000, 'thorough': 300000},
         budget={'quick': 70, 'thorough': 900}),
    Part('single-path', run_sp, strategy=strat_sp,
         examples={'quick': 6000, 'thorough': 100000},
         budget={'quick': 30, 'thorough': 400}),
]

LEVEL_TEXT = ('Generated prior states, options and edit/update rounds; the '
              'result on disk is checked by an independent exact-cover scan '
              'and a fresh verification after every round.')
LEVEL_NOTE = ('Trusted: refscan.py/refmanifest.py/hashlib. Trees bounded to '
              '<= 4 directories, <= 7 files; ebuild profiles are C19\'s '
              'subject.')
TECHNIQUE = ('property-based testing (Hypothesis, multi-round histories) '
             'against an independent exact-cover disk scan')
