# C19 - Profiles place Manifests and type entries as documented; output
#       verifies.

import os

from hypothesis import strategies as st

import buckets
import fsnap
import gem
import harness
import refmanifest as R
import refscan
import repogen
from harness import Part, ok, violation, skip

PROPERTY = 'C19'
LEVEL = 'exploration'
RULE = ('Hypothesis: ebuild-repository-shaped trees (0..4 categories x 0..4 '
        'packages with ebuilds, metadata.xml, nested files/; profiles, '
        'eclass, licenses, metadata with dtd/glsa/news/xml-schema/md5-cache/'
        'install-qa-check.d, timestamp files, ignored distfiles/local/'
        'packages/lost+found, loose top-level files) x profile {default, '
        'ebuild, old-ebuild} x overrides of hashes / watermark / format; '
        '`gemato create`, then 0..4 edits (change/add/delete, new package, '
        'new category) and `gemato update` with the same profile. Oracle: '
        'model written from the docstrings of profile.py and the property '
        'text: set of directories holding a Manifest, default IGNORE '
        'entries of new Manifests, entry tags, default hashes {BLAKE2B, '
        'SHA512}, (tag, path) sorting, 128-byte gz watermark, top-level and '
        'old-ebuild package Manifests plain; plus the exact-cover scan and '
        'a verification by a default-profile loader. Non-trivial: >= 1 '
        'package with an ebuild and >= 1 metadata sub-directory; distinct '
        'by descriptor hash.')
ASSUMPTIONS = [
    'Shapes the documentation does not settle (metadata.xml deep inside '
    'profiles/, a "files" component outside a package under old-ebuild, '
    '*.ebuild names at depth 3 outside packages) are not generated here.',
    'The placement/typing model in this file is the statement of the '
    'documented policy.',
]

TS_TOP = ['distfiles', 'local', 'lost+found', 'packages']
TS_META = ['timestamp', 'timestamp.chk', 'timestamp.commit', 'timestamp.x']
TS_SUB = ['timestamp.chk', 'timestamp.commit']


@st.composite
def case(draw):
    r = draw(repogen.repo())
    profile = draw(st.sampled_from(['default', 'ebuild', 'ebuild',
                                    'old-ebuild', 'old-ebuild']))
    o = {'profile': profile, 'hashes': None, 'watermark': None,
         'format': None,
         # library API with an explicit sort override (None: the CLI)
         'sort': draw(st.sampled_from([None, None, None, False, True]))}
    if profile == 'default' or draw(st.integers(0, 3)) == 0:
        o['hashes'] = draw(st.sampled_from([['SHA256'], ['MD5', 'SHA1'],
                                            ['BLAKE2B', 'SHA512', 'MD5']]))
    if draw(st.integers(0, 3)) == 0:
        o['watermark'] = draw(st.sampled_from([0, 64, 300, 100000]))
    if draw(st.integers(0, 3)) == 0:
        o['format'] = draw(st.sampled_from(['bz2', 'xz', 'lzma', 'gz']))
    # the update may run with other compression settings than the create
    o2 = None
    if draw(st.integers(0, 2)) == 0:
        o2 = {'watermark': draw(st.sampled_from([None, 0, 64, 100000])),
              'format': draw(st.sampled_from([None, 'gz', 'bz2', 'xz',
                                              'lzma']))}
    edits = draw(repogen.repo_edits(r))
    pk = sorted({os.path.dirname(p) for p in r['files']
                 if p.endswith('.ebuild') and p.count('/') == 2})
    pk += sorted({p.split('/')[0] for p in pk})
    return {'repo': r, 'opts': o, 'edits': edits,
            'forced_subdir': draw(st.sampled_from(pk))
            if pk and draw(st.booleans()) else None,
            'opts2': o2,
            # the repository was hashed flat so far (one top-level Manifest
            # listing everything as DATA, including package Manifest files
            # that carry DIST entries); the profile is applied by an update
            'flat_prior': draw(st.integers(0, 7)) == 0,
            # harness-owned directory listing order (neighbouring names
            # such as foo / foo-bin are met in either order)
            'scandir': draw(st.sampled_from([None, 'sorted', 'reversed',
                                             'a', 'b']))}


def strat(tier):
    return case()


def list_tree(root):
    """dir -> (dirnames, filenames) for the real tree"""
    out = {}
    for dirpath, dirnames, filenames in os.walk(root):
        rel = os.path.relpath(dirpath, root)
        out['' if rel == '.' else rel] = (sorted(dirnames), sorted(filenames))
    return out


def expected_manifest_dirs(tree, profile):
    if profile == 'default':
        return {''}
    exp = {''}
    for d, (dirnames, filenames) in tree.items():
        if d == '':
            continue
        parts = d.split('/')
        if parts[0] in TS_TOP or any(p.startswith('.') for p in parts):
            continue
        want = False
        if 'metadata.xml' in filenames:
            want = True
        elif len(parts) == 1:
            want = bool(dirnames) or d in ('eclass', 'licenses', 'metadata',
                                           'profiles')
        elif len(parts) == 2:
            want = any(f.endswith('.ebuild') for f in filenames) or (
                parts[0] == 'metadata' and parts[1] in (
                    'dtd', 'glsa', 'md5-cache', 'news', 'xml-schema'))
        elif len(parts) == 3:
            want = parts[:2] == ['metadata', 'md5-cache']
        if want:
            exp.add(d)
    return exp


def expected_tag(path, profile):
    if profile != 'old-ebuild':
        return 'DATA'
    parts = path.split('/')
    if len(parts) == 3:
        if path.endswith('.ebuild'):
            return 'EBUILD'
        if parts[2] == 'metadata.xml':
            return 'MISC'
    if parts[2:3] == ['files']:
        return 'AUX'
    return 'DATA'


def default_ignores(d, profile):
    if profile == 'default':
        return []
    if d == '':
        return TS_TOP
    if d == 'metadata':
        return TS_META
    if d in ('metadata/dtd', 'metadata/glsa', 'metadata/news',
             'metadata/xml-schema'):
        return TS_SUB
    return []


def manifest_dirs(root):
    out = {}
    for dirpath, dirnames, filenames in os.walk(root):
        rel = os.path.relpath(dirpath, root)
        rel = '' if rel == '.' else rel
        ms = [f for f in filenames if R.strip_compression(f) == 'Manifest']
        if ms:
            out[rel] = ms
    return out


def check_manifests(root, o, what, created_now, classes, prior_entries=None,
                    rewritten=None, prev_fmt=None):
    """Policy checks on the Manifests in @created_now (dirs whose Manifest
    was created by this run) / on all entries for typing."""
    profile = o['profile']
    hashes = set(o['hashes'] or ['BLAKE2B', 'SHA512'])
    sc = refscan.scan(root, 'Manifest', '', sorted(hashes))
    if sc.problems:
        return violation(
            f'{what}: Manifests do not describe the repository: '
            f'{sc.problems[:5]!r}',
            sig='scan:' + '+'.join(sorted({k for k, p, t in sc.problems})),
            classes=classes)
    oc = gem.verify_lib(root)
    if oc.kind != 'return' or oc.value is not True:
        return violation(
            f'{what}: a default-profile loader does not verify the result: '
            f'{oc.describe()}', sig='plain-verify:' + oc.kind,
            classes=classes)
    wm = o['watermark'] if o['watermark'] is not None else (
        128 if profile != 'default' else None)
    fmt = o['format'] or 'gz'
    for mp, entries in sc.manifests.items():
        mdir = refscan.dirname(mp)
        # hashes of MANIFEST references
        for e in entries:
            if e.tag == 'MANIFEST' and set(e.checksums) != hashes:
                return violation(
                    f'{what}: MANIFEST entry {e.path!r} in {mp!r} has hashes '
                    f'{sorted(e.checksums)}, expected {sorted(hashes)}',
                    sig='wrong-hash-set:MANIFEST', classes=classes)
        # typing
        for e in entries:
            if e.tag in ('DATA', 'MISC', 'EBUILD', 'AUX'):
                full = refscan.join(mdir, e.path)
                if prior_entries is not None and full in prior_entries:
                    want = prior_entries[full]
                else:
                    want = expected_tag(full, profile)
                if e.tag != want:
                    return violation(
                        f'{what}: {full!r} is typed {e.tag}, the '
                        f'{profile} profile prescribes {want}',
                        sig=f'wrong-tag:{want}->{e.tag}', classes=classes)
        # sorting
        if (profile != 'default' and o.get('sort') is not False) \
                or o.get('sort') is True:
            keys = [(e.tag, e.path if e.tag != 'TIMESTAMP' else '')
                    for e in entries]
            # AUX sorts by its stored path (files/...) in gemato; compare on
            # the tag-major order only, then path within equal tags
            if keys != sorted(keys):
                return violation(
                    f'{what}: entries of {mp!r} are not sorted: '
                    f'{keys[:6]!r}...', sig='not-sorted', classes=classes)
        # default IGNOREs of new Manifests
        if mdir in created_now:
            ign = sorted(e.path for e in entries if e.tag == 'IGNORE')
            if ign != sorted(default_ignores(mdir, profile)):
                return violation(
                    f'{what}: new Manifest in {mdir!r} has IGNORE entries '
                    f'{ign}, documented defaults are '
                    f'{sorted(default_ignores(mdir, profile))}',
                    sig='default-ignores', classes=classes)
        # compression
        comp = R.compression_of(mp)
        if mp == 'Manifest' or R.strip_compression(mp) == 'Manifest' \
                and mdir == '':
            if comp:
                return violation(f'{what}: top-level Manifest compressed',
                                 sig='top-compressed', classes=classes)
        elif wm is not None and (mdir in created_now or (
                rewritten is not None and mp in rewritten)):
            with open(os.path.join(root, mp), 'rb') as f:
                u = len(R.decompress(f.read(), comp))
            has_ebuild = any(e.tag == 'EBUILD' for e in entries)
            target = fmt
            if mdir not in created_now and prev_fmt and prev_fmt.get(mdir):
                target = prev_fmt[mdir]     # compressed before: format kept
            want = target if (u >= wm and not (profile == 'old-ebuild'
                                               and has_ebuild)) else None
            if comp != want:
                return violation(
                    f'{what}: Manifest {mp!r} (uncompressed {u} bytes, '
                    f'watermark {wm}, EBUILD entries: {has_ebuild}) is '
                    f'{"." + comp if comp else "plain"}, expected '
                    f'{"." + want if want else "plain"}',
                    sig='compression-policy', classes=classes)
    return None


def cli_args(o):
    a = ['-p', o['profile']]
    if o['hashes']:
        a += ['--hashes', ' '.join(o['hashes'])]
    if o['watermark'] is not None:
        a += ['-c', str(o['watermark'])]
    if o['format']:
        a += ['-C', o['format']]
    return a


def run_gemato(cmd, o, path, extra=()):
    """`gemato <cmd> ... <path>`; with a sort override the same through the
    library (the command line has no sort option)."""
    if o.get('sort') is None or '-f' in extra:
        return gem.cli([cmd] + cli_args(o) + list(extra) + [path])

    def run():
        from gemato.profile import get_profile_by_name
        from gemato.find_top_level import find_top_level_manifest
        kw = {'profile': get_profile_by_name(o['profile']),
              'sort': o['sort']}
        if o['hashes']:
            kw['hashes'] = list(o['hashes'])
        if o['watermark'] is not None:
            kw['compress_watermark'] = o['watermark']
        if o['format']:
            kw['compress_format'] = o['format']
        if cmd == 'create':
            top = os.path.join(path, 'Manifest')
            kw['allow_create'] = True
        else:
            top = find_top_level_manifest(path, allow_compressed=True)
        m = gem.ManifestRecursiveLoader(top, **kw)
        m.update_entries_for_directory(
            os.path.relpath(path, os.path.dirname(top)).replace('.', '', 1)
            if os.path.relpath(path, os.path.dirname(top)) == '.'
            else os.path.relpath(path, os.path.dirname(top)))
        m.save_manifests(force=(cmd == 'create'))
        return 0
    oc = gem.call(run)
    return oc, [], None


def run_flat_prior(desc, root, o, classes):
    import hashlib
    pkgs = sorted({os.path.dirname(p) for p in desc['repo']['files']
                   if p.endswith('.ebuild') and p.count('/') == 2})
    if not pkgs:
        return skip('no-package')
    dist = {}
    for i, p in enumerate(pkgs):
        if i % 2 == 0:
            dist[p] = (f'DIST {os.path.basename(p)}-1.tar.gz 1234 MD5 '
                       f'0123456789abcdef0123456789abcdef\n')
            with open(os.path.join(root, p, 'Manifest'), 'w') as f:
                f.write(dist[p])
    lines = []
    for dirpath, dirnames, filenames in os.walk(root):
        dirnames[:] = [d for d in dirnames if not d.startswith('.')]
        for fn in sorted(filenames):
            full = os.path.join(dirpath, fn)
            rel = os.path.relpath(full, root)
            if fn.startswith('.') or rel.split('/')[0] in \
                    repogen.IGNORED_TOP or not os.path.isfile(full):
                continue
            with open(full, 'rb') as f:
                data = f.read()
            lines.append('DATA %s %d MD5 %s' % (
                R.escape_path(rel), len(data), hashlib.md5(data).hexdigest()))
    with open(os.path.join(root, 'Manifest'), 'w') as f:
        f.write('\n'.join(lines) + '\n')
    snap0 = fsnap.snapshot(root)
    oc, records, _ = run_gemato('update', o, root)
    what = (f'`gemato update {" ".join(cli_args(o))}` on a repository that '
            f'was hashed flat (package Manifests with DIST entries listed '
            f'as DATA)')
    classes.append('flat-prior')
    if isinstance(oc.exc, NotImplementedError):
        # the recorded C18 finding (a listed path that a new Manifest's
        # default IGNOREs cover)
        return skip('known-c18-now-ignored-path')
    if oc.kind != 'return' or oc.value != 0:
        return violation(
            f'{what} failed: {oc.describe()} '
            f'{[r.getMessage()[:100] for r in gem.error_records(records)]}',
            sig='update-failed:flat-prior:' + (
                buckets.signature(oc.exc) if oc.exc else 'exit'),
            classes=classes)
    for p, text in dist.items():
        found = None
        for suf in R.SUFFIXES:
            mp = os.path.join(root, p, 'Manifest' + suf)
            if os.path.exists(mp):
                found = R.read_manifest_file(mp)
        if found is None or text.strip() not in found.split('\n'):
            return violation(
                f'{what}: the DIST entry of {p}/Manifest is gone: '
                f'{found!r}', sig='dist-entries-lost', classes=classes)
    d = fsnap.diff(snap0, fsnap.snapshot(root))
    alien = [x for x in fsnap.changed_paths(d)
             if not os.path.basename(x).startswith('Manifest')]
    if alien:
        return violation(f'{what} touched {alien}',
                         sig='non-manifest-touched', classes=classes)
    # (whether the tree verifies afterwards is not claimed here: a Manifest
    # file that is also listed as DATA is the input class of the recorded
    # C03 finding manifest-also-listed-as-data)
    return ok(nontrivial=True, classes=classes)


def run_case(desc):
    import contextlib
    import shim
    order = shim.ScandirOrder(desc['scandir']) if desc.get('scandir') \
        else contextlib.nullcontext()
    with order:
        return run_case_ordered(desc)


def run_case_ordered(desc):
    root = harness.fresh_dir('c19')
    try:
        repogen.materialize(desc['repo'], root)
        o = desc['opts']
        profile = o['profile']
        classes = ['profile:' + profile]
        tree = list_tree(root)
        if desc.get('flat_prior') and profile != 'default':
            return run_flat_prior(desc, root, o, classes)
        oc, records, _ = run_gemato('create', o, root)
        what = f'`gemato create {" ".join(cli_args(o))}`'
        if o.get('sort') is not None:
            what += f' (through the library, sort={o["sort"]})'
            classes.append(f'library-sort:{o["sort"]}')
        if oc.kind != 'return' or oc.value != 0:
            return violation(f'{what} failed: {oc.describe()} '
                             f'{[r.getMessage()[:100] for r in gem.error_records(records)]}',
                             sig='create-failed:' + (
                                 buckets.signature(oc.exc) if oc.exc
                                 else 'exit'), classes=classes)
        got = manifest_dirs(root)
        exp = expected_manifest_dirs(tree, profile)
        if set(got) != exp:
            return violation(
                f'{what}: Manifests in {sorted(got)}, the {profile} policy '
                f'names {sorted(exp)} (missing {sorted(exp - set(got))}, '
                f'extra {sorted(set(got) - exp)})',
                sig='placement:' + ('missing' if exp - set(got) else 'extra'),
                classes=classes)
        multi = {d: ms for d, ms in got.items() if len(ms) > 1}
        if multi:
            return violation(f'{what}: several Manifest files in {multi}',
                             sig='multiple-manifests', classes=classes)
        v = check_manifests(root, o, what, set(got), classes)
        if v is not None:
            return v
        # edits + update
        if desc['edits']:
            sc0 = refscan.load_all(root)
            prior = {}
            for mp, entries in sc0.manifests.items():
                for e in entries:
                    if e.tag in ('DATA', 'MISC', 'EBUILD', 'AUX'):
                        prior[refscan.join(refscan.dirname(mp), e.path)] = \
                            e.tag
            before = set(manifest_dirs(root))
            prev_fmt = {d: R.compression_of(ms[0])
                        for d, ms in manifest_dirs(root).items()}
            snap0 = fsnap.snapshot(root)
            repogen.apply_edits(root, desc['edits'])
            tree = list_tree(root)
            if desc.get('opts2'):
                o = dict(o, **desc['opts2'])
                classes.append('update-with-other-compression-options')
            oc, records, _ = run_gemato('update', o, root)
            what = (f'`gemato update {" ".join(cli_args(o))}` after '
                    f'{desc["edits"]!r}')
            if oc.kind != 'return' or oc.value != 0:
                return violation(
                    f'{what} failed: {oc.describe()} '
                    f'{[r.getMessage()[:100] for r in gem.error_records(records)]}',
                    sig='update-failed:' + (buckets.signature(oc.exc)
                                            if oc.exc else 'exit'),
                    classes=classes)
            got = manifest_dirs(root)
            exp = expected_manifest_dirs(tree, profile)
            still = {d for d in before if d in tree}
            if not (exp <= set(got)) or not (set(got) <= exp | still):
                return violation(
                    f'{what}: Manifests in {sorted(got)}, policy names '
                    f'{sorted(exp)} (before: {sorted(before)})',
                    sig='placement-after-update', classes=classes)
            rew = set(fsnap.changed_paths(fsnap.diff(
                snap0, fsnap.snapshot(root))))
            v = check_manifests(root, o, what, set(got) - before, classes,
                                prior_entries=prior, rewritten=rew,
                                prev_fmt=prev_fmt)
            if v is not None:
                return v
            classes.append('updated')
        # a forced update of one package/category directory rewrites every
        # Manifest: the policy must still hold everywhere
        sub = desc.get('forced_subdir')
        if sub and os.path.isdir(os.path.join(root, sub)) \
                and profile != 'default':
            prev_fmt = {d: R.compression_of(ms[0])
                        for d, ms in manifest_dirs(root).items()}
            snap0 = fsnap.snapshot(root)
            oc, records, _ = gem.cli(['update'] + cli_args(o) + [
                '-f', os.path.join(root, sub)])
            what = f'`gemato update {" ".join(cli_args(o))} -f <repo>/{sub}`'
            if oc.kind == 'return' and oc.value == 0:
                rew = set(fsnap.changed_paths(fsnap.diff(
                    snap0, fsnap.snapshot(root))))
                v = check_manifests(root, o, what, set(), classes,
                                    prior_entries=None, rewritten=rew,
                                    prev_fmt=prev_fmt)
                if v is not None and not v.sig.startswith('wrong-tag'):
                    return v
                classes.append('forced-subdir-update')
        files = desc['repo']['files']
        has_pkg = any(p.endswith('.ebuild') and p.count('/') == 2
                      for p in files)
        has_md = any(p.startswith('metadata/') and p.count('/') >= 2
                     for p in files)
        return ok(nontrivial=(has_pkg and has_md and profile != 'default'),
                  classes=classes)
    finally:
        harness.rmtree(root)


PARTS = [
    Part('profiles', run_case, strategy=strat,
         examples={'quick': 10000, 'thorough': 100000},
         budget={'quick': 60, 'thorough': 900}),
]

LEVEL_TEXT = ('Generated repositories checked against an independently '
              'written policy model (placement, default IGNOREs, typing, '
              'default hashes, sorting, compression) plus the exact-cover '
              'scan and a plain-loader verification.')
LEVEL_NOTE = ('Trusted: the policy model in this file (from the profile '
              'docstrings and the property text), refscan, refmanifest.')
TECHNIQUE = ('model-based property testing (Hypothesis) of profile policy on '
             'generated ebuild repositories')
