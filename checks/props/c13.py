# C13 - Compression is transparent and follows the watermark.

import copy
import os

from hypothesis import strategies as st

import buckets
import fsnap
import gem
import harness
import layout
import mutate
import refmanifest as R
import refscan
import refverify
import treegen
import updgen
from harness import Part, ok, violation, skip
from props import c03

PROPERTY = 'C13'
LEVEL = 'exploration'
RULE = ('(transparency) tree + plain layout with >= 1 sub-Manifest + 0..3 '
        'file mutations; 2..5 assignments of {plain,gz,bz2,lzma,xz} to the '
        'sub-Manifests, each rendered by the harness (stdlib compressors, '
        'references recomputed bottom-up); compared across the variants: '
        'verdict class of assert_directory_verifies for every sub-path, '
        'offending-path set and result under a keep-going handler, '
        'verify_path / find_path_entry / find_dist_entry for every path '
        'mentioned. (watermark) C03\'s prior states; pass 1 learns each '
        'Manifest\'s uncompressed size; pass 2 saves with W in {0, s-1, s, '
        's+1, max+100}, format F, forced or not, then up to 2 more edit+save '
        'rounds with other (W, F); after each save, for every rewritten '
        'sub-Manifest with measured uncompressed size u: plain before -> '
        '<name>.F iff u >= W; compressed as G before -> stays G if u >= W, '
        'plain if u < W; top-level Manifest plain; one file per logical '
        'Manifest; references exist; exact-cover scan and verify pass. '
        'Non-trivial: (a) >= 2 variants differing in a sub-Manifest that '
        'holds entries; (b) a boundary |u-W| <= 1 was hit or a format '
        'transition happened. Distinct by descriptor hash.')
ASSUMPTIONS = [
    'Manifest path names are compared with the compression suffix stripped.',
    'Rounds in which gemato raises one of its own exceptions make no claim.',
]

SUFFIXES = ['gz', 'bz2', 'lzma', 'xz']


def logical(p):
    return R.strip_compression(p)


# --- (a) transparency --------------------------------------------------------

@st.composite
def transp_case(draw):
    spec = draw(treegen.tree_spec(max_dirs=4, max_files=7, min_files=2))
    lay = draw(layout.layout(spec, compressed=False, sub_prob=(2, 3),
                             lies=True, second_prob=(1, 3)))
    nsub = len(lay['manifests']) - 1
    # line ends are a property of the text, not of the storage format
    for m in lay['manifests']:
        if draw(st.integers(0, 7)) == 0:
            m['eol'] = draw(st.sampled_from(['\r\n', '\r']))
            lay['tags'].append('eol:' + repr(m['eol']))
    nvar = draw(st.integers(2, 5))
    variants = [[''] * nsub]
    for _ in range(nvar - 1):
        variants.append([draw(st.sampled_from(['', 'gz', 'bz2', 'lzma', 'xz']))
                         for _ in range(nsub)])
    rendered0 = layout.render(lay)
    muts = draw(mutate.mutations(
        spec, lay, rendered0, max_ops=3,
        kinds=['same-size', 'resize', 'delete', 'stray', 'retype', 'touch',
               'stray-dir']))
    rendered = []
    for v in variants:
        l2 = copy.deepcopy(lay)
        for m, fmt in zip(l2['manifests'][1:], v):
            m['fmt'] = fmt
            if fmt:
                m['p'] = m['p'] + '.' + fmt
        rendered.append(layout.render(l2))
    vis = treegen.visible(spec)
    ignores = [e['path'] for m in lay['manifests'] for e in m['entries']
               if e['tag'] == 'IGNORE']
    dirs = [''] + sorted(
        p for p, x in vis.items() if x[0] == 'd'
        and not treegen.is_hidden(p)
        and not any(refverify.comp_prefix(i, p) for i in ignores))
    paths = sorted(set(vis) | {e['path'] for m in lay['manifests']
                               for e in m['entries']
                               if 'path' in e and e['tag'] != 'DIST'})
    dists = sorted({(e['path'], m['dir']) for m in lay['manifests']
                    for e in m['entries'] if e['tag'] == 'DIST'})
    holds = [bool(m['entries']) for m in lay['manifests'][1:]]
    return {'tree': spec, 'variants': variants, 'rendered': rendered,
            'muts': muts, 'dirs': dirs, 'paths': paths[:14],
            'dists': [list(d) for d in dists], 'holds': holds,
            'tags': lay['tags']}


def strat_transp(tier):
    return transp_case()


def ekey(e):
    if e is None:
        return None
    return (e.tag, getattr(e, 'size', None),
            tuple(sorted(getattr(e, 'checksums', {}).items())))


def norm(p):
    return logical(os.path.normpath(p))


def battery(root, desc):
    res = {}
    for sub in desc['dirs']:
        if not os.path.isdir(os.path.join(root, sub)):
            continue
        oc = gem.verify_lib(root, sub)
        if oc.kind == 'return':
            res['verify:' + sub] = ('return', oc.value)
        elif oc.kind == 'oserror':
            res['verify:' + sub] = ('oserror', oc.exc.errno)
        else:
            res['verify:' + sub] = (oc.kind,)
        calls = []

        def handler(err):
            calls.append(norm(err.path))
            return False
        oc = gem.verify_lib(root, sub, fail_handler=handler)
        if oc.kind == 'return':
            res['keepgoing:' + sub] = ('return', oc.value, sorted(calls))
        elif oc.kind == 'oserror':
            res['keepgoing:' + sub] = ('oserror', oc.exc.errno)
        else:
            res['keepgoing:' + sub] = (oc.kind,)
    for p in desc['paths']:
        m = gem.loader(root)
        oc = gem.call(m.verify_path, p)
        if oc.kind == 'return':
            ok_, diff = oc.value
            res['verify_path:' + p] = ('return', ok_,
                                       sorted(d[0] for d in diff))
        elif oc.kind == 'oserror':
            res['verify_path:' + p] = ('oserror', oc.exc.errno)
        else:
            res['verify_path:' + p] = (oc.kind,)
        oc = gem.call(m.find_path_entry, p)
        res['find_path_entry:' + p] = (
            ('return', ekey(oc.value)) if oc.kind == 'return' else (oc.kind,))
    for name, d in desc['dists']:
        m = gem.loader(root)
        oc = gem.call(m.find_dist_entry, name, d)
        res[f'find_dist_entry:{name}@{d}'] = (
            ('return', ekey(oc.value)) if oc.kind == 'return' else (oc.kind,))
    return res


def run_transp(desc):
    base = harness.fresh_dir('c13a')
    try:
        results = []
        for i, rendered in enumerate(desc['rendered']):
            root = os.path.join(base, f'v{i}')
            os.mkdir(root)
            treegen.materialize(desc['tree'], root)
            layout.write_manifests(rendered, root)
            mutate.apply_ops(root, desc['muts'])
            results.append(battery(root, desc))
        classes = list(desc['tags'])
        ref = results[0]
        for i, r in enumerate(results[1:], 1):
            if r != ref:
                keys = sorted(k for k in set(ref) | set(r)
                              if ref.get(k) != r.get(k))
                k = keys[0]
                return violation(
                    f'compression assignment {desc["variants"][i]} changes '
                    f'{k}: plain gives {ref.get(k)!r}, compressed gives '
                    f'{r.get(k)!r} ({len(keys)} differing results)',
                    sig='result-depends-on-compression:' + k.split(':')[0],
                    classes=classes)
        differing = any(
            any(v[j] != desc['variants'][0][j] and desc['holds'][j]
                for j in range(len(v))) for v in desc['variants'][1:])
        for v in desc['variants']:
            for f in v:
                classes.append('fmt:' + (f or 'plain'))
        return ok(nontrivial=differing, classes=sorted(set(classes)))
    finally:
        harness.rmtree(base)


# --- (b) watermark -----------------------------------------------------------

@st.composite
def wm_case(draw):
    state = draw(updgen.prior_state(conflicts=False, junk=False))
    rounds = []
    for i in range(draw(st.integers(1, 3))):
        rounds.append({
            'edits': draw(updgen.edits(state, max_ops=3)) if i else [],
            'wsel': draw(st.integers(0, 20)),
            'wdelta': draw(st.sampled_from([-1, 0, 1, 0, 1, -1, None, 'max'])),
            'format': draw(st.sampled_from([None, 'gz', 'bz2', 'lzma', 'xz'])),
            'force': draw(st.booleans()),
        })
    o = draw(updgen.update_opts(state, allow_subdir=False, allow_cli=True,
                                allow_compress=False))
    return {'state': state, 'opts': o, 'rounds': rounds,
            # one loader object kept across the rounds (library API)
            'reuse': draw(st.booleans())}


def strat_wm(tier):
    return wm_case()


def manifest_inventory(root):
    """logical Manifest path -> list of (suffix or '', uncompressed size)"""
    sc = refscan.load_all(root)
    inv = {}
    for mp in sc.manifests:
        inv.setdefault(logical(mp), [])
    for lg in list(inv):
        for suf in [''] + SUFFIXES:
            p = lg + ('.' + suf if suf else '')
            full = os.path.join(root, p)
            if os.path.isfile(full):
                try:
                    with open(full, 'rb') as f:
                        u = len(R.decompress(f.read(), suf or None))
                except Exception:
                    u = None
                inv[lg].append((suf, u))
    return inv, sc


def has_dangling(root):
    for dirpath, dirnames, filenames in os.walk(root):
        for n in dirnames + filenames:
            p = os.path.join(dirpath, n)
            if os.path.islink(p) and not os.path.exists(p):
                return True
    return False


def run_wm(desc):
    state, o = desc['state'], dict(desc['opts'])
    base = harness.fresh_dir('c13b')
    try:
        classes = list(state['tags'])
        # pass 1: learn the uncompressed sizes
        probe = os.path.join(base, 'probe')
        os.mkdir(probe)
        updgen.build_prior(state, probe)
        po = dict(o, force=True, watermark=None, format=None, api='lib')
        oc = updgen.run_update(probe, po, create=(state['mode'] == 'none'))
        if oc.kind != 'return':
            return ok(classes=classes + ['probe-failed:' + oc.kind])
        inv, _ = manifest_inventory(probe)
        sizes = sorted({u for lst in inv.values() for suf, u in lst
                        if u is not None}) or [0]
        root = os.path.join(base, 'work')
        os.mkdir(root)
        updgen.build_prior(state, root)
        boundary = False
        transition = False
        kept = {}
        if desc.get('reuse') and o['api'] == 'lib':
            classes.append('loader-reused')
        # a prior state that verifies as it stands (round 0 has no edits)
        # gives the first save no reason to fail either
        prior_ok = False
        if state['mode'] != 'none' and not desc['rounds'][0]['edits']:
            def fresh_verify():
                return gem.ManifestRecursiveLoader(
                    os.path.join(root, 'Manifest')
                ).assert_directory_verifies('')
            v = gem.call(fresh_verify)
            prior_ok = v.kind == 'return' and v.value is True
            if prior_ok:
                classes.append('prior-state-verifies')
        for i, rnd in enumerate(desc['rounds']):
            mutate.apply_ops(root, rnd['edits'])
            if rnd['wdelta'] is None:
                W = 0
            elif rnd['wdelta'] == 'max':
                W = max(sizes) + 100
            else:
                W = max(0, sizes[rnd['wsel'] % len(sizes)] + rnd['wdelta'])
            F = rnd['format']
            ro = dict(o, watermark=W, format=F, force=rnd['force'])
            try:
                inv_before, _ = manifest_inventory(root)
            except Exception:
                inv_before = {}
            before = fsnap.snapshot(root)
            trigger = c03.dedup_trigger_paths(root)
            if desc.get('reuse') and o['api'] == 'lib':
                def run_reused():
                    if 'm' not in kept:
                        kept['m'] = gem.ManifestRecursiveLoader(
                            os.path.join(root, 'Manifest'),
                            hashes=list(o['hashes']),
                            allow_create=(state['mode'] == 'none'))
                    kept['m'].update_entries_for_directory('')
                    kept['m'].save_manifests(
                        force=rnd['force'], compress_watermark=W,
                        compress_format=F, sort=o['sort'])
                oc = gem.call(run_reused)
            else:
                oc = updgen.run_update(
                    root, ro, create=(state['mode'] == 'none' and i == 0))
            what = (f'round {i}: save with watermark {W}, format {F}, '
                    f'force {rnd["force"]} via {o["api"]}')
            if oc.kind != 'return' and (i > 0 or prior_ok) \
                    and not has_dangling(root):
                # the previous round left an exactly described, verifying
                # tree and the edits only change/add/delete regular files:
                # this save has no reason to fail
                return violation(
                    f'{what} failed on a tree that verified before the '
                    f'edits {rnd["edits"]!r}: {oc.describe()}',
                    sig='save-failed-on-consistent-tree:' + oc.kind,
                    classes=classes)
            if oc.kind in ('gemato', 'mismatch', 'incompatible', 'loop',
                           'xdev'):
                classes.append('gemato-exception')
                break
            if oc.kind != 'return':
                classes.append('other-exception:' + buckets.signature(oc.exc))
                break
            after = fsnap.snapshot(root)
            changed = set(fsnap.changed_paths(fsnap.diff(before, after)))
            inv_after, sc = manifest_inventory(root)
            eff = F or 'gz'
            for lg in inv_before:
                if lg not in inv_after:
                    return violation(
                        f'{what}: Manifest {lg!r} is gone; Manifests now: '
                        f'{sorted(inv_after)}', sig='manifest-name-lost',
                        classes=classes)
            for lg in inv_after:
                if not any((lg + ('.' + s_ if s_ else '')) in before
                           for s_ in [''] + SUFFIXES) \
                        and state['mode'] != 'none':
                    return violation(
                        f'{what}: a Manifest named {lg!r} appeared (no '
                        f'variant of it existed before)',
                        sig='manifest-name-invented', classes=classes)
            for lg, variants in inv_after.items():
                if len(variants) != 1:
                    return violation(
                        f'{what}: logical Manifest {lg!r} exists as '
                        f'{[("." + s) if s else "plain" for s, u in variants]}',
                        sig='manifest-variants:%d' % len(variants),
                        classes=classes)
                suf, u = variants[0]
                names = [lg + ('.' + s if s else '') for s in [''] + SUFFIXES]
                rewritten = any(n in changed for n in names)
                if not rewritten:
                    continue
                prev = [s_ for s_ in [''] + SUFFIXES
                        if (lg + ('.' + s_ if s_ else '')) in before]
                prev_suf = prev[0] if len(prev) == 1 else None
                if len(prev) > 1:
                    continue        # several variants before: no claim
                if u is None:
                    return violation(f'{what}: {lg!r} not decompressible',
                                     sig='unreadable-manifest',
                                     classes=classes)
                if abs(u - W) <= 1:
                    boundary = True
                if lg == 'Manifest':
                    want = ''
                elif prev_suf:
                    want = prev_suf if u >= W else ''
                else:
                    want = eff if u >= W else ''
                if prev_suf is not None and (prev_suf != suf):
                    transition = True
                if suf != want:
                    return violation(
                        f'{what}: rewritten Manifest {lg!r} has uncompressed '
                        f'size {u}, was {"." + prev_suf if prev_suf else ("plain" if prev_suf == "" else "new")}'
                        f', is stored as {"." + suf if suf else "plain"}; '
                        f'expected {"." + want if want else "plain"}',
                        sig='watermark:' + ('boundary' if abs(u - W) <= 1
                                            else 'wrong-side'),
                        classes=classes)
            scan = refscan.scan(root, 'Manifest', '', o['hashes'])
            if scan.problems:
                kinds = sorted({k for k, p, t in scan.problems})
                known = all(k in ('stale-entry', 'wrong-hash-set',
                                  'stale-manifest-ref')
                            and p in trigger for k, p, t in scan.problems)
                return violation(
                    f'{what}: Manifests do not describe the tree: '
                    f'{scan.problems[:5]!r}',
                    sig=(c03.KNOWN_DEDUP if known
                         else 'scan:' + '+'.join(kinds)), classes=classes)
            oc = gem.verify_lib(root)
            if oc.kind != 'return' or oc.value is not True:
                return violation(
                    f'{what}: verification afterwards fails: {oc.describe()}',
                    sig='verify-after-save:' + oc.kind, classes=classes)
        if boundary:
            classes.append('boundary-hit')
        if transition:
            classes.append('format-transition')
        return ok(nontrivial=(boundary or transition), classes=classes)
    finally:
        harness.rmtree(base)


PARTS = [
    Part('transparency', run_transp, strategy=strat_transp,
         examples={'quick': 6000, 'thorough': 80000},
         budget={'quick': 50, 'thorough': 600}),
    Part('watermark', run_wm, strategy=strat_wm,
         examples={'quick': 10000, 'thorough': 150000},
         budget={'quick': 50, 'thorough': 600}),
]

LEVEL_TEXT = ('Metamorphic comparison of all verification/lookup results '
              'across generated compression assignments, and a predicate on '
              'the on-disk Manifest set after saves with watermarks chosen '
              'at measured sizes +-1.')
LEVEL_NOTE = ('Trusted: stdlib compressors for rendering variants and for '
              'measuring uncompressed sizes; refscan/refverify.')
TECHNIQUE = ('metamorphic property-based testing (Hypothesis): compression '
             'assignments and watermark boundaries')
