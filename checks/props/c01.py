# C01 - Recursive verification accepts exactly the trees that match their
#       Manifests.

import os

from hypothesis import strategies as st

import gem
import harness
import layout
import mutate
import refverify
import treegen
from harness import Part, ok, violation, skip
from treegen import BASE_MTIME

PROPERTY = 'C01'
LEVEL = 'exploration'
RULE = ('Hypothesis: tree (<= 4 dirs, <= 7 files, hostile/hidden names, file '
        'and directory symlinks, FIFOs) + Manifest layout built over it '
        '(sub-Manifests in any format, second Manifest in a directory, '
        'entries in any covering Manifest, duplicates with same/sub/super/'
        'disjoint hash sets, conflicting duplicates, IGNORE exact/look-alike, '
        'DIST, TIMESTAMP, lying entries) + 0..4 mutations (same-size change, '
        'resize, delete, stray visible/hidden/under IGNORE/look-alike, '
        're-type, touch, sub-Manifest rewritten without its parent) + '
        'verified sub-path + last_mtime + API (library / CLI with 1 or 2 '
        'paths). Oracle: independent reference verifier (refverify.py), '
        'three-valued. Non-trivial: layout has a sub-Manifest, duplicate or '
        'IGNORE and (>= 1 mutation/lie or >= 3 files); distinct by '
        'descriptor hash.')
ASSUMPTIONS = [
    'refverify.py is the statement of "matches"; entries beneath an IGNOREd '
    'directory, dangling symlinks without entry, MISC-vs-other duplicate '
    'tags and files skippable under last_mtime are DONT-CARE.',
    'Symlinks to regular files count as regular files (stat semantics).',
    'Directory symlinks never form loops here (C16).',
]


@st.composite
def case(draw):
    spec = draw(treegen.tree_spec())
    lay = draw(layout.layout(spec, lies=True, dup_manifest_entries=True))
    if draw(st.integers(0, 5)) == 0:
        # a file that simply is not listed (nothing on disk is touched, so
        # no directory mtime gives it away)
        for m in lay['manifests']:
            fe = [e for e in m['entries']
                  if e['tag'] in ('DATA', 'MISC', 'EBUILD', 'AUX')]
            if fe and draw(st.booleans()):
                m['entries'].remove(draw(st.sampled_from(fe)))
                lay['tags'].append('unlisted-file')
    rendered = layout.render(lay)
    muts = draw(mutate.mutations(spec, lay, rendered, max_ops=4))
    vis = treegen.visible(spec)
    link_paths = [n['p'] for n in spec['nodes']
                  if n['t'] == 'l' and n['k'] == 'd']
    ignores = [e['path'] for m in lay['manifests'] for e in m['entries']
               if e['tag'] == 'IGNORE']

    def usable_dir(p, allow_links):
        if treegen.is_hidden(p):
            return False
        if any(refverify.comp_prefix(i, p) for i in ignores):
            return False
        if not allow_links and any(refverify.comp_prefix(lp, p)
                                   for lp in link_paths):
            return False
        return True
    # a stray file in a directory that shares its name with a pruned
    # (IGNOREd) directory elsewhere in the tree
    pruned = sorted(i for i in ignores if i in vis and vis[i][0] == 'd')
    hosts = [''] + sorted(p for p, v in vis.items() if v[0] == 'd'
                          and usable_dir(p, False))
    if pruned and draw(st.integers(0, 3)) == 0:
        base = os.path.basename(draw(st.sampled_from(pruned)))
        host = draw(st.sampled_from(hosts))
        twin = (host + '/' if host else '') + base
        if twin not in vis and not any(
                refverify.comp_prefix(i, twin) for i in ignores):
            muts = muts + [{'op': 'add', 'p': twin + '/stray in twin',
                            'c': 'stray\n', 'm': BASE_MTIME}]
            lay['tags'].append('twin-of-pruned-directory')
    api = draw(st.sampled_from(['lib', 'lib', 'lib', 'cli', 'cli2']))
    dirs = [''] + sorted(p for p, v in vis.items() if v[0] == 'd'
                         and usable_dir(p, api == 'lib'))
    subpath = draw(st.sampled_from(dirs)) if draw(st.integers(0, 1)) == 0 \
        else ''
    subpath2 = draw(st.sampled_from(dirs))
    last_mtime = None
    if api == 'lib' and draw(st.integers(0, 2)) == 0:
        last_mtime = draw(st.sampled_from(
            [BASE_MTIME - 100, BASE_MTIME, BASE_MTIME + 25, BASE_MTIME + 50,
             BASE_MTIME + 100, BASE_MTIME + 200,
             # later than everything, directories included
             4_000_000_000]))
        # ... or next to an actual file mtime, also within the same second
        known = [n['m'] for n in spec['nodes'] if 'm' in n] + [
            o['m'] for o in muts if 'm' in o]
        if known and draw(st.booleans()):
            last_mtime = draw(st.sampled_from(known)) + draw(
                st.sampled_from([-1, -0.5, -0.25, 0, 0.25, 0.5]))
    nfiles = sum(1 for v in vis.values() if v[0] == 'f')
    return {'tree': spec, 'manifests': rendered, 'muts': muts,
            'subpath': subpath, 'subpath2': subpath2,
            # library: the sub-path spelled 'sub/' instead of 'sub'
            'slash': draw(st.integers(0, 3)) == 0,
            'last_mtime': last_mtime, 'api': api,
            'tags': lay['tags'], 'nfiles': nfiles,
            # verify the still unmutated tree first (state kept between two
            # verifications of the same paths must not leak)
            'pre_verify': draw(st.integers(0, 3)) == 0,
            # how the path is spelled on the command line
            'keep_going': draw(st.booleans()),
            'spelling': draw(st.sampled_from(
                ['abs', 'abs', 'abs-slash', 'rel', 'rel-dot', 'rel-slash',
                 'from-inside']))}


def strat(tier):
    return case()


def build(desc, root):
    treegen.materialize(desc['tree'], root)
    layout.write_manifests(desc['manifests'], root)
    if desc.get('pre_verify'):
        gem.verify_lib(root)
        gem.verify_lib(root, fail_handler=lambda e: True)
    mutate.apply_ops(root, desc['muts'])


def first_reason(model):
    for name in ('chain_broken', 'unparsable', 'incompatible', 'offending'):
        d = getattr(model, name)
        if d:
            p = sorted(d)[0]
            return f'{name}:{d[p].split(":")[0]}'
    return 'none'


def judge(model, oc, what):
    """Compare a gemato outcome with the reference model."""
    hard = (model.chain_broken or model.unparsable or model.incompatible
            or model.offending)
    soft = (model.soft or model.dontcare or model.incompatible_dontcare)
    if oc.kind == 'return':
        success = oc.value is True or oc.value == 0
        if success and hard:
            return violation(
                f'{what} reported success, reference says '
                f'{model.summary()!r}',
                sig='false-success:' + first_reason(model))
        if not success and not hard and not soft:
            return violation(
                f'{what} reported failure ({oc.value!r}) but the tree '
                f'matches its Manifests', sig='false-failure')
        return None
    if oc.kind == 'mismatch':
        # (a path listed twice with conflicting values mismatches at least
        # one of its entries: a mismatch is as good as the conflict error)
        allowed = (set(model.chain_broken) | set(model.offending)
                   | set(model.soft) | set(model.dontcare)
                   | set(model.incompatible)
                   | set(model.incompatible_dontcare))
        p = os.path.normpath(oc.path)
        if not hard and not soft:
            return violation(
                f'{what} raised {oc!r} but the tree matches its Manifests',
                sig='false-failure')
        if p not in allowed:
            return violation(
                f'{what} raised a mismatch for {p!r}, which matches; '
                f'reference: {model.summary()!r}',
                sig='mismatch-for-matching-path')
        return None
    if oc.kind == 'incompatible':
        if not (model.incompatible or model.incompatible_dontcare):
            return violation(
                f'{what} raised {oc!r} without conflicting duplicates',
                sig='false-incompatible')
        return None
    if oc.kind == 'oserror':
        if model.inaccessible:
            return None
        return violation(
            f'{what} raised {oc.describe()}; reference: {model.summary()!r}',
            sig='unexpected-oserror:' + buckets_sig(oc))
    if oc.kind == 'loop' and any('loop' in v for v in model.dontcare.values()):
        return None
    if oc.kind == 'gemato' and (model.unparsable or hard or soft):
        # another diagnosed failure (e.g. a stray file that carries a
        # Manifest name and is not a Manifest) where a failure is due
        return None
    return violation(
        f'{what}: unexpected {oc.describe()}; reference: '
        f'{model.summary()!r}', sig='unexpected:' + buckets_sig(oc))


junk_manifest_above = gem.junk_manifest_above


def buckets_sig(oc):
    import buckets
    return buckets.signature(oc.exc) if oc.exc is not None else oc.kind


def run_case(desc):
    root = harness.fresh_dir('c01')
    try:
        build(desc, root)
        sub = desc['subpath']
        if not os.path.isdir(os.path.join(root, sub)):
            return skip('subpath-vanished')
        classes = list(desc['tags']) + ['api:' + desc['api']]
        if desc['muts']:
            classes.append('mutated')
        if sub:
            classes.append('subpath')
        if desc['last_mtime'] is not None:
            classes.append('last_mtime')
        model = refverify.evaluate(root, 'Manifest', sub, desc['last_mtime'])
        if desc['api'] == 'lib':
            kwargs = {}
            if desc['last_mtime'] is not None:
                kwargs['last_mtime'] = desc['last_mtime']
            spelled = sub + '/' if (sub and desc.get('slash')) else sub
            if spelled != sub:
                classes.append('trailing-slash')
            oc = gem.verify_lib(root, spelled, **kwargs)
            v = judge(model, oc, f'assert_directory_verifies({sub!r}, '
                      f'last_mtime={desc["last_mtime"]})')
        else:
            sp = desc.get('spelling', 'abs')
            if desc['api'] == 'cli2' and sp == 'from-inside':
                sp = 'rel'
            arg, cwd = gem.spell(root, sub, sp)
            paths = [arg]
            classes.append('spelling:' + sp)
            models = [model]
            if desc['api'] == 'cli2':
                sub2 = desc['subpath2']
                if not os.path.isdir(os.path.join(root, sub2)):
                    return skip('subpath-vanished')
                paths.append(gem.spell(root, sub2, sp)[0])
                models.append(refverify.evaluate(root, 'Manifest', sub2))
            kflag = ['-k'] if desc.get('keep_going') else []
            oc, records, _ = gem.cli(['verify'] + kflag + paths, cwd=cwd)
            v = None
            if oc.kind == 'gemato' and junk_manifest_above(
                    root, [sub] + ([desc['subpath2']]
                                   if desc['api'] == 'cli2' else [])):
                # the CLI's upward search for the top-level Manifest met a
                # file named Manifest that is not one (C15's subject)
                return ok(classes=classes + ['junk-manifest-on-the-way-up'],
                          dontcare=True)
            if oc.kind == 'return':
                hard = [m for m in models if m.chain_broken or m.unparsable
                        or m.incompatible or m.offending]
                soft = [m for m in models if m.soft or m.dontcare
                        or m.incompatible_dontcare]
                if oc.value == 0 and hard:
                    v = violation(
                        f'`gemato verify` of {paths!r} exited 0, reference '
                        f'says {[m.summary() for m in hard]!r}',
                        sig='false-success:' + first_reason(hard[0]))
                elif oc.value != 0 and not hard and not soft:
                    v = violation(
                        f'`gemato verify` of {paths!r} exited {oc.value!r} '
                        f'but the tree matches; log: '
                        f'{[r.getMessage() for r in records][-3:]!r}',
                        sig='false-failure')
                elif oc.value != 0 and not gem.error_records(records):
                    v = violation(
                        f'`gemato verify` exited {oc.value!r} without an '
                        f'error message', sig='silent-failure')
            else:
                # an exception escaped main(): judge against the first model
                # that expects a failure
                v = None
                for mdl in models:
                    v = judge(mdl, oc, f'`gemato verify` of {paths!r}')
                    if v is None:
                        break
        if v is not None:
            v.classes = tuple(classes)
            return v
        interesting = any(t.startswith(('sub-manifest', 'dup-', 'ignore-',
                                        'same-dir'))
                          for t in desc['tags'])
        changed = bool(desc['muts']) or any(
            t.startswith('lie-') for t in desc['tags'])
        nontrivial = interesting and (changed or desc['nfiles'] >= 3)
        if model.offending or model.chain_broken:
            classes.append('expect:mismatch')
        elif model.incompatible:
            classes.append('expect:incompatible')
        elif model.soft or model.dontcare or model.incompatible_dontcare:
            classes.append('expect:dontcare')
        else:
            classes.append('expect:success')
        dc = bool(model.soft or model.dontcare or model.incompatible_dontcare)
        return ok(nontrivial=nontrivial, classes=classes, dontcare=dc)
    finally:
        harness.rmtree(root)


PARTS = [
    Part('trees', run_case, strategy=strat,
         examples={'quick': 24000, 'thorough': 400000},
         budget={'quick': 60, 'thorough': 900}),
]

LEVEL_TEXT = ('Generated trees, layouts and mutations compared with an '
              'independent reference verifier; violations are shown absent '
              'only for the generated cases (thousands per run, bounded '
              'tree size).')
LEVEL_NOTE = ('Trusted: refverify.py/refmanifest.py (the oracle), hashlib, '
              'the kernel\'s stat/readdir. Trees are bounded to <= 4 '
              'directories and <= 7 files of <= 64 KiB+1.')
TECHNIQUE = ('model-based property testing (Hypothesis) against an '
             'independent reference verifier')
