# C06 - I/O errors never turn into success or into 'file absent'.

import errno
import os

from hypothesis import strategies as st

import buckets
import fsnap
import gem
import harness
import layout
import refverify
import shim
import treegen
import updgen
from harness import Part, ok, violation, skip

from gemato.exceptions import ManifestMismatch

PROPERTY = 'C06'
LEVEL = 'fault_enumeration'
RULE = ('Corpus: Hypothesis-generated consistent trees (2..8 files, 1..4 '
        'Manifests in any format, sub-directories, file symlinks, hidden '
        'names), optionally with one extra object (stray file, UNIX socket, '
        'self-referencing symlink) or one not yet referenced sub-Manifest. '
        'For each tree and each operation in {assert_directory_verifies '
        'raising, keep-going, `gemato verify`, verify_path of every listed '
        'file, update_entries_for_directory, `gemato update`}: a counting '
        'run records every filesystem call issued under the tree (os.open, '
        'os.stat, os.fstat, os.scandir, directory iteration, open, raw '
        'reads); then one run per call index with exactly that call failing '
        '(errno rotating over EACCES EPERM EIO ENOMEM ELOOP ENOTDIR '
        'ENAMETOOLONG EMFILE ESTALE EOVERFLOW; thorough: all ten per '
        'placement). Also one permanently unreadable object per tree '
        '(listed file, stray file, sub-directory, sub-Manifest: every call '
        'on it fails). Oracle: if the fault fired the operation does not '
        'succeed, does not report the object as absent, an update raises '
        'and (scan phase) leaves the tree byte-identical, no descriptor '
        'stays open. Non-trivial: a fault that fired; distinct = (tree '
        'hash, operation, call index, errno), counted per placement.')
ASSUMPTIONS = [
    'Faults are injected at the Python-visible call boundary (harness shim '
    'on os/builtins attributes), not inside C extensions.',
    'ENOENT is excluded by the property; DirEntry.is_dir errors are handled '
    'by os.walk itself and are not fault sites.',
    'A fault that does not fire (the run took another path) makes no claim.',
]

ERRNOS = [errno.EACCES, errno.EPERM, errno.EIO, errno.ENOMEM, errno.ELOOP,
          errno.ENOTDIR, errno.ENAMETOOLONG, errno.EMFILE, errno.ESTALE,
          errno.EOVERFLOW]

OPS = ['verify', 'verify-k', 'cli-verify', 'verify_path', 'update',
       'cli-update', 'verify-mtime', 'update-mtime', 'cli-verify-sub']
FAR_FUTURE = 4_000_000_000


@st.composite
def case(draw):
    spec = draw(treegen.tree_spec(max_dirs=3, max_files=6, min_files=2,
                                  fifos=False, dangling=False,
                                  dir_links=False))
    lay = draw(layout.layout(spec, duplicates=False, lies=False,
                             conflicts=False, sub_prob=(2, 3),
                             under_ignore=False))
    rendered = layout.render(lay)
    vis = treegen.visible(spec)
    ignores = [e['path'] for m in lay['manifests'] for e in m['entries']
               if e['tag'] == 'IGNORE']

    def plain(p):
        return (not treegen.is_hidden(p)
                and not any(refverify.comp_prefix(i, p) for i in ignores))
    listed = sorted({e['path'] for m in lay['manifests']
                     for e in m['entries']
                     if e['tag'] in ('DATA', 'MISC', 'EBUILD', 'AUX')
                     and plain(e['path'])})
    dirs = sorted(p for p, v in vis.items() if v[0] == 'd' and plain(p))
    subm = [m['p'] for m in rendered if m['p'] != 'Manifest']
    extra = draw(st.sampled_from([None, None, None, 'stray', 'socket',
                                  'socket-listed', 'loop-link',
                                  'unregistered']))
    if extra == 'unregistered':
        if len(lay['manifests']) > 1:
            # a valid sub-Manifest that no MANIFEST entry references yet
            lay['manifests'][-1]['registered'] = False
            rendered = layout.render(lay)
            subm = [m['p'] for m in rendered if m['p'] != 'Manifest'
                    and m['p'] != lay['manifests'][-1]['p']]
        else:
            extra = None
    # a sub-directory to hand to the CLI: preferably one with a Manifest of
    # its own (the upward search passes it on the way to the top)
    own = sorted({refverify.dirname(p) for p in subm
                  if refverify.dirname(p) in dirs})
    subdir = own[0] if own else (dirs[0] if dirs else '')
    d = {'tree': spec, 'manifests': rendered, 'listed': listed,
         'subdir': subdir,
         'dirs': dirs, 'subm': subm, 'extra': extra, 'tags': lay['tags'],
         'hashes': ['MD5', 'SHA1'],
         'rot': draw(st.integers(0, 9)),
         'ops': draw(st.lists(st.sampled_from(OPS), min_size=2, max_size=3,
                              unique=True))}
    if extra == 'unregistered':
        d['unregistered'] = lay['manifests'][-1]['p']
        d['ops'] = ['update', 'cli-update', 'update-mtime']
    return d


def strat(tier):
    return case()


def build(desc, root):
    treegen.materialize(desc['tree'], root)
    layout.write_manifests(desc['manifests'], root)
    if desc['extra'] == 'stray':
        with open(os.path.join(root, 'unlisted'), 'w') as f:
            f.write('stray')
    elif desc['extra'] == 'loop-link':
        # a stray object that cannot be inspected: stat gives ELOOP
        os.symlink('selfloop', os.path.join(root, 'selfloop'))
    elif desc['extra'] in ('socket', 'socket-listed'):
        treegen.write_node(root, {'p': 'sock', 't': 's'})
        if desc['extra'] == 'socket-listed':
            with open(os.path.join(root, 'Manifest'), 'a') as f:
                f.write('DATA sock 0 MD5 d41d8cd98f00b204e9800998ecf8427e\n')


def open_fds_under(root):
    out = 0
    for fd in os.listdir('/proc/self/fd'):
        try:
            t = os.readlink(f'/proc/self/fd/{fd}')
        except OSError:
            continue
        if t.startswith(root):
            out += 1
    return out


def run_op(root, op, desc):
    """Returns (outcome, extra) where outcome is a gem.Outcome."""
    if op == 'verify':
        return gem.verify_lib(root), None
    if op == 'verify-k':
        calls = []

        def h(err):
            calls.append(err)
            return False
        return gem.verify_lib(root, fail_handler=h), calls
    if op == 'verify-mtime':
        # every file is "not newer": checksums may be skipped, errors not
        return gem.verify_lib(root, last_mtime=FAR_FUTURE), None
    if op == 'update-mtime':
        o = {'hashes': desc['hashes'], 'sort': None, 'force': False,
             'target': '', 'watermark': None, 'format': None, 'api': 'lib'}
        return updgen.run_update(root, o, save=False,
                                 last_mtime=FAR_FUTURE), None
    if op in ('cli-verify', 'cli-verify-sub'):
        target = root
        if op == 'cli-verify-sub' and desc.get('subdir'):
            target = os.path.join(root, desc['subdir'])
        oc, records, _ = gem.cli(['verify', target])
        return oc, [r.msg for r in records
                    if isinstance(r.msg, ManifestMismatch)]
    if op == 'verify_path':
        def run():
            m = gem.loader(root)
            res = []
            for p in desc['listed']:
                res.append((p, m.verify_path(p)))
            return res
        return gem.call(run), None
    o = {'hashes': desc['hashes'], 'sort': None, 'force': False,
         'target': '', 'watermark': None, 'format': None,
         'api': 'cli' if op == 'cli-update' else 'lib'}
    return updgen.run_update(root, o, save=(op == 'cli-update')), None


def succeeded(op, oc):
    if oc.kind != 'return':
        return False
    if op in ('verify', 'verify-k', 'verify-mtime'):
        return oc.value is True
    if op in ('cli-verify', 'cli-verify-sub'):
        return oc.value == 0
    if op == 'verify_path':
        return all(r[0] for p, r in oc.value)
    if op == 'cli-update':
        return oc.value in (0, None)
    return True     # library update returned normally


def absent_reports(root, op, oc, extra):
    """ManifestMismatch / diffs that call an existing object non-existent."""
    bad = []
    mism = []
    if oc.kind == 'mismatch':
        mism.append(oc.exc)
    if extra:
        mism += [e for e in extra if isinstance(e, ManifestMismatch)]
    for e in mism:
        for d in e.diff:
            if d[0] == '__exists__' and d[1] is True and d[2] is False:
                if os.path.lexists(os.path.join(root, e.path)):
                    bad.append(e.path)
    if op == 'verify_path' and oc.kind == 'return':
        for p, (okv, diff) in oc.value:
            for d in diff:
                if d[0] == '__exists__' and d[1] is True and d[2] is False \
                        and os.path.lexists(os.path.join(root, p)):
                    bad.append(p)
    return bad


def one_run(root, op, desc, classes, nth=None, err=None, only=None,
            base_leak=0):
    """Run @op under a fault.  Returns (Result or None, fired)."""
    before = fsnap.snapshot(root) if op in ('update', 'cli-update',
                                            'update-mtime') else None
    fds0 = open_fds_under(root)
    with shim.FaultInjector(root, nth=nth, err=err, only=only) as fi:
        oc, extra = run_op(root, op, desc)
    where = (f'op {op}, call #{nth} {fi.fired_call} failing with '
             f'{errno.errorcode.get(err, err)}' if only is None else
             f'op {op}, every call on {only!r} failing with '
             f'{errno.errorcode.get(err, err)}')
    if not fi.fired:
        return None, False
    if succeeded(op, oc):
        if op == 'cli-update' and fi.fired_phase != 'scan':
            pass
        return violation(
            f'{where}: the operation reported success ({oc!r})',
            sig=f'success-despite-fault:{op}:{fi.fired_call.split("(")[0]}',
            classes=classes), True
    bad = absent_reports(root, op, oc, extra)
    if bad:
        return violation(
            f'{where}: existing object(s) {bad} reported as absent',
            sig=f'reported-absent:{op}', classes=classes), True
    if oc.kind == 'other':
        return violation(
            f'{where}: internal error instead of the I/O error\n'
            + oc.describe(), sig=f'internal-error:{op}:'
            + buckets.signature(oc.exc), classes=classes), True
    if before is not None and fi.fired_phase == 'scan':
        d = fsnap.diff(before, fsnap.snapshot(root))
        if not fsnap.is_empty(d):
            return violation(
                f'{where}: the failed update wrote to the tree: {d!r}',
                sig=f'update-wrote-despite-fault:{op}', classes=classes), True
    fds1 = open_fds_under(root)
    if fds1 - fds0 > base_leak:
        # (descriptors that the same operation leaves open without any
        # fault are not attributed to the fault)
        return violation(
            f'{where}: {fds1 - fds0} descriptor(s) under the tree left open '
            f'({base_leak} without the fault)',
            sig=f'fd-leak:{op}', classes=classes), True
    return None, True


_fired_total = 0


def run_case(desc):
    global _fired_total
    tier_all = os.environ.get('VERIF_TIER_INTERNAL') == 'thorough'
    root = harness.fresh_dir('c06')
    fired_here = 0
    runs_here = [0]
    leaks = {}
    try:
        build(desc, root)
        classes = list(desc['tags'])
        if desc['extra']:
            classes.append('extra:' + desc['extra'])
        # the tree must verify (or fail only because of the extra object)
        oc = gem.verify_lib(root)
        if desc['extra'] == 'unregistered':
            pass        # verification is not expected to pass; update ops
        elif desc['extra'] is None:
            if oc.kind != 'return' or oc.value is not True:
                return violation(
                    f'consistent corpus tree does not verify: '
                    f'{oc.describe()}', sig='baseline-does-not-verify')
        else:
            if succeeded('verify', oc):
                return violation(
                    f'tree with an unlisted {desc["extra"]} verifies',
                    sig='baseline-stray-accepted', classes=classes)
            bad = absent_reports(root, 'verify', oc, None)
            if bad:
                return violation(
                    f'{desc["extra"]} object reported as absent: {bad}',
                    sig='reported-absent:special-file', classes=classes)
            n_extra = 1
            if desc['extra'] == 'stray':
                # the stray file made permanently unreadable
                for op in ('verify', 'verify-k', 'cli-verify'):
                    v, fired = one_run(root, op, desc, classes,
                                       err=errno.EACCES, only='unlisted')
                    n_extra += 1
                    if v is not None:
                        return v
            if desc['extra'] == 'loop-link':
                # the real program (entry point in a process of its own):
                # the exit status tells the user about the I/O error
                import subprocess
                import sys
                code = ('import sys; sys.path.insert(0, sys.argv[1]); '
                        'from gemato.cli import setuptools_main; '
                        'sys.argv = ["gemato", "verify", sys.argv[2]]; '
                        'setuptools_main()')
                p = subprocess.run([sys.executable, '-c', code, harness.REPO,
                                    root], capture_output=True, text=True)
                n_extra += 1
                classes.append('entry-point-process')
                if p.returncode == 0:
                    return violation(
                        f'the gemato entry point run as a process exited 0 '
                        f'on a tree with an object that cannot be inspected '
                        f'(ELOOP); stderr: {p.stderr[-300:]!r}',
                        sig='process-exit-0-despite-error', classes=classes)
            r = ok(nontrivial=True, classes=classes)
            r.subcases = n_extra
            r.subcases_nontrivial = n_extra
            return r
        for op in desc['ops']:
            f0 = open_fds_under(root)
            with shim.FaultInjector(root) as counter:
                base_oc, _ = run_op(root, op, desc)
            leaks[op] = max(0, open_fds_under(root) - f0)
            if op == 'cli-update':
                # restore: the CLI update may have rewritten Manifests
                harness.rmtree(root)
                os.mkdir(root)
                build(desc, root)
            n = counter.count
            classes.append(f'calls:{op}:{min(n // 20 * 20, 100)}+')
            for i in range(n):
                errs = ERRNOS if tier_all else [
                    ERRNOS[(i + desc['rot']) % len(ERRNOS)]]
                for e in errs:
                    if op == 'cli-update':
                        harness.rmtree(root)
                        os.mkdir(root)
                        build(desc, root)
                    v, fired = one_run(root, op, desc, classes, nth=i, err=e,
                                       base_leak=leaks[op])
                    runs_here[0] += 1
                    if fired:
                        fired_here += 1
                    if v is not None:
                        return v
        # permanently unreadable objects
        targets = []
        if desc['listed']:
            targets.append(desc['listed'][0])
        if desc['dirs']:
            targets.append(desc['dirs'][0])
        if desc['subm']:
            targets.append(desc['subm'][0])
        if desc.get('unregistered'):
            targets = [desc['unregistered']]
        elif desc.get('subdir'):
            # the top-level Manifest itself, met by the CLI's upward search
            targets.append('Manifest')
        for t in targets:
            for op in (('update', 'update-mtime')
                       if desc.get('unregistered') else
                       ('cli-verify-sub', 'cli-verify') if t == 'Manifest'
                       else
                       ('verify', 'verify-k', 'cli-verify', 'update',
                        'verify-mtime', 'update-mtime')):
                if op not in leaks:
                    f0 = open_fds_under(root)
                    run_op(root, op, desc)
                    leaks[op] = max(0, open_fds_under(root) - f0)
                v, fired = one_run(root, op, desc, classes,
                                   err=errno.EACCES, only=t,
                                   base_leak=leaks[op])
                runs_here[0] += 1
                if fired:
                    fired_here += 1
                if v is not None:
                    return v
        classes.append(f'fired:{min(fired_here // 50 * 50, 300)}+')
        r = ok(nontrivial=fired_here > 0, classes=classes)
        r.subcases = max(1, runs_here[0])
        r.subcases_nontrivial = fired_here
        return r
    finally:
        _fired_total += fired_here
        harness.rmtree(root)


def prepare(tier):
    os.environ['VERIF_TIER_INTERNAL'] = tier


def extra_evidence(results):
    m = results.get('faults')
    if not m:
        return None
    fired = 0
    for k, v in m['classes'].items():
        if k.startswith('fired:'):
            fired += int(k[6:-1]) * v
    return {'fault_placements_fired_lower_bound': fired}


PARTS = [
    Part('faults', run_case, strategy=strat, prepare=prepare,
         examples={'quick': 1400, 'thorough': 12000},
         budget={'quick': 70, 'thorough': 1200}),
]

LEVEL_TEXT = ('Fault enumeration: for every tree of the generated corpus '
              'every single placement of one failing filesystem call (all '
              'call sites reached by the operation, errno rotating in quick, '
              'all ten in thorough) plus permanently unreadable objects; '
              'complete per tree and operation, sampled over trees.')
LEVEL_NOTE = ('Trusted: the harness shim replacing os.open/os.stat/os.fstat/'
              'os.scandir/open for paths under the scratch tree (it records '
              'whether the fault fired; a refactor that bypasses it weakens '
              'the check but cannot raise an alarm). Faults inside C '
              'extensions between two Python-visible calls are not placed.')
TECHNIQUE = ('fault injection enumerated over every filesystem call site of '
             'Hypothesis-generated trees')
