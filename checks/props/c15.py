# C15 - Top-level Manifest discovery returns the outermost covering
#       Manifest.

import os

from hypothesis import strategies as st

import buckets
import gem
from props import c01
import harness
import mountns
import refmanifest as R
from harness import Part, ok, violation, skip

from gemato.exceptions import GematoException
from gemato.find_top_level import find_top_level_manifest

PROPERTY = 'C15'
LEVEL = 'exploration'
RULE = ('(cli-paths) C01 trees, 2..3 directories given to `gemato verify -k` / `update` in one invocation and one invocation each: same exit status and errors. (discovery) ' 
        'Hypothesis: directory chain d0/../dn (n <= 6) with look-alike '
        'names (foo, foobar, foo.d, fo); per level no Manifest / plain / one '
        'compressed variant / (rarely) unparsable text; IGNORE entries '
        'naming the start path relative to that level, an ancestor of it, a '
        'sibling, a string-prefix look-alike or a longer path, plus '
        'unrelated entries; start depth 0..n; allow_compressed on/off; '
        'allow_xdev on/off with 0..2 tmpfs mounts at generated levels '
        '(private mount namespace) and rarely a Manifest that is a symlink '
        'to a file on the other filesystem. Oracle: upward-walk reference '
        'model that also inspects the real ancestors of the scratch '
        'directory. Non-trivial: >= 2 levels with a Manifest, or a '
        'look-alike IGNORE, or a device boundary below the top; distinct by '
        'descriptor hash.')
ASSUMPTIONS = [
    'A directory holding both Manifest and a compressed variant, and IGNORE '
    'paths written with a trailing slash, are not generated.',
    'For a Manifest that is a symlink to another filesystem only "nothing '
    'from another device is returned" is asserted.',
    'Device boundaries need CLONE_NEWNS + tmpfs mounts; where unavailable '
    'those cases are skipped and counted.',
]

NAMES = ['foo', 'foobar', 'foo.d', 'fo', 'a', 'b', 'x y', 'é']
FMTS = ['gz', 'bz2', 'lzma', 'xz']


@st.composite
def case(draw):
    n = draw(st.integers(0, 6))
    names = [draw(st.sampled_from(NAMES)) for _ in range(n)]
    start = draw(st.integers(0, n))
    levels = []
    for lvl in range(n + 1):
        r = draw(st.integers(0, 29))
        if r <= 11:
            mk = None
        elif r <= 21:
            mk = 'plain'
        elif r <= 27:
            mk = draw(st.sampled_from(FMTS))
        elif r == 28:
            # a plain Manifest and, next to it, a stale compressed one that
            # IGNOREs the start path (the plain one is the Manifest)
            mk = 'both'
        else:
            mk = 'junk'
        ignores = []
        if mk and mk != 'junk' and lvl <= start:
            rel = names[lvl:start]
            for _ in range(draw(st.integers(0, 2))):
                kind = draw(st.sampled_from(
                    ['exact', 'ancestor', 'sibling', 'lookalike', 'longer',
                     'unrelated', 'from-above']))
                if kind == 'from-above':
                    # the start path as seen from the directory above this
                    # Manifest's: matches nothing here
                    if lvl >= 1:
                        ignores.append('/'.join(names[lvl - 1:start])
                                       or names[lvl - 1])
                    continue
                if kind == 'unrelated' or not rel:
                    ignores.append(draw(st.sampled_from(
                        ['distfiles', 'zz/yy', 'packages'])))
                elif kind == 'exact':
                    ignores.append('/'.join(rel))
                elif kind == 'ancestor':
                    k = draw(st.integers(1, len(rel)))
                    ignores.append('/'.join(rel[:k]))
                elif kind == 'sibling':
                    ignores.append('/'.join(rel[:-1] + ['sibling']))
                elif kind == 'lookalike':
                    k = draw(st.integers(1, len(rel)))
                    base = '/'.join(rel[:k])
                    ignores.append(draw(st.sampled_from(
                        [base + 'bar', base[:-1] or 'q', base + '.d',
                         base + ' '])))
                else:
                    ignores.append('/'.join(rel + ['deeper']))
        extra = draw(st.booleans())
        levels.append({'m': mk, 'ign': ignores, 'extra': extra,
                       'mount': False})
    allow_xdev = draw(st.booleans())
    if n >= 1 and draw(st.integers(0, 2)) == 0:
        for lvl in draw(st.lists(st.integers(1, n), min_size=1, max_size=2,
                                 unique=True)):
            levels[lvl]['mount'] = True
    linked = None
    if n >= 1 and draw(st.integers(0, 11)) == 0:
        linked = draw(st.integers(0, n))
        levels[linked]['m'] = 'symlink'
    return {'names': names, 'levels': levels, 'start': start,
            'allow_compressed': draw(st.booleans()),
            'allow_xdev': allow_xdev, 'linked': linked,
            # ask with a path relative to a working directory at or above
            # the start directory (None: absolute path)
            'cwd_level': draw(st.sampled_from(
                [None, None] + list(range(0, start + 1)))),
            # the start directory named through a symlink that sits outside
            # (and less deep than) the chain
            'via_link': draw(st.integers(0, 5)) == 0}


def strat(tier):
    return case()


def manifest_text(level):
    lines = []
    if level['extra']:
        lines.append('DATA unrelated 0 MD5 d41d8cd98f00b204e9800998ecf8427e')
    for i in level['ign']:
        lines.append('IGNORE ' + R.escape_path(i))
    if level['extra']:
        lines.append('TIMESTAMP 2020-01-01T00:00:00Z')
    return '\n'.join(lines) + ('\n' if lines else '')


def comp_prefix(prefix, path):
    prefix = prefix.rstrip('/')
    return path == prefix or path.startswith(prefix + '/')


def reference(start_path, allow_xdev, allow_compressed):
    """Upward walk over the real filesystem.  Returns (result, flags)."""
    names = ['Manifest']
    if allow_compressed:
        names += ['Manifest.' + f for f in FMTS]
    cur = os.path.realpath(start_path)
    odev = os.stat(cur).st_dev
    last = None
    flags = set()
    rel_parts = []
    while True:
        st = os.stat(cur)
        if st.st_dev != odev and not allow_xdev:
            break
        found = None
        for nm in names:
            p = os.path.join(cur, nm)
            if os.path.exists(p):
                found = p
                break
        if found:
            if os.stat(found).st_dev != odev and not allow_xdev:
                flags.add('manifest-on-other-device')
                break
            try:
                entries = R.parse_strict(R.read_manifest_file(found))
            except Exception:
                flags.add('unparsable')
                return None, flags
            rel = '/'.join(rel_parts)
            if rel and any(e.tag == 'IGNORE' and comp_prefix(e.path, rel)
                           for e in entries):
                break
            if rel and any(e.tag != 'IGNORE' and e.tag not in (
                    'DIST', 'TIMESTAMP') and e.path == rel for e in entries):
                flags.add('file-entry-for-start')
            last = found
        if cur == '/':
            break
        rel_parts.insert(0, os.path.basename(cur))
        cur = os.path.dirname(cur)
    return last, flags


def run_case(desc):
    base = harness.fresh_dir('c15')
    other = None
    link_path = None
    try:
        need_mount = any(l['mount'] for l in desc['levels']) \
            or desc['linked'] is not None
        if need_mount and not mountns.available():
            return skip('no-mount-namespace')
        cur = os.path.join(base, 'd0')
        os.mkdir(cur)
        paths = [cur]
        for lvl, nm in enumerate(desc['names'], 1):
            cur = os.path.join(cur, nm)
            os.mkdir(cur)
            if desc['levels'][lvl]['mount']:
                mountns.mount_tmpfs(cur)
            paths.append(cur)
        if desc['linked'] is not None:
            other = os.path.join(base, 'otherfs')
            os.mkdir(other)
            mountns.mount_tmpfs(other)
        nman = 0
        for lvl, level in enumerate(desc['levels']):
            mk = level['m']
            if not mk:
                continue
            nman += 1
            text = manifest_text(level)
            d = paths[lvl]
            if mk in ('plain', 'both'):
                with open(os.path.join(d, 'Manifest'), 'w') as f:
                    f.write(text)
                if mk == 'both':
                    relp = '/'.join(desc['names'][lvl:desc['start']])
                    stale = ('IGNORE ' + R.escape_path(relp) + '\n') \
                        if relp else ''
                    with open(os.path.join(d, 'Manifest.gz'), 'wb') as f:
                        f.write(R.compress(stale.encode('utf8'), 'gz'))
            elif mk == 'junk':
                with open(os.path.join(d, 'Manifest'), 'w') as f:
                    f.write('this is not a Manifest\n')
            elif mk == 'symlink':
                tgt = os.path.join(other, f'M{lvl}')
                with open(tgt, 'w') as f:
                    f.write(text)
                os.symlink(tgt, os.path.join(d, 'Manifest'))
            else:
                with open(os.path.join(d, 'Manifest.' + mk), 'wb') as f:
                    f.write(R.compress(text.encode('utf8'), mk))
        start = paths[desc['start']]
        exp, flags = reference(start, desc['allow_xdev'],
                               desc['allow_compressed'])
        ask = start
        old_cwd = os.getcwd()
        via_link = bool(desc.get('via_link'))
        if via_link:
            # (a short path: the link is much less deep than its target)
            link_path = ask = os.path.join(
                os.path.dirname(harness.scratch_root()),
                f'gv-lnk-{os.getpid()}-{os.path.basename(base)}')
            os.symlink(start, ask)
            if desc.get('cwd_level') is not None:
                os.chdir(os.path.dirname(ask))
                ask = os.path.basename(ask)
        elif desc.get('cwd_level') is not None:
            os.chdir(paths[desc['cwd_level']])
            ask = os.path.relpath(start, paths[desc['cwd_level']])
        try:
            oc = gem.call(find_top_level_manifest, ask,
                          allow_xdev=desc['allow_xdev'],
                          allow_compressed=desc['allow_compressed'])
            if oc.kind == 'return' and oc.value:
                # (resolved physically, while the working directory is
                # still the one the call saw: 'lnk/../..' is not lexical)
                oc.value = os.path.realpath(oc.value) if via_link \
                    else os.path.abspath(oc.value)
        finally:
            os.chdir(old_cwd)
        classes = [f'manifests:{min(nman, 3)}',
                   'xdev-allowed' if desc['allow_xdev'] else 'xdev-forbidden']
        if need_mount:
            classes.append('mounts')
        lookalike = any(i.endswith(('bar', '.d', ' ', 'sibling'))
                        for l in desc['levels'] for i in l['ign'])
        if lookalike:
            classes.append('lookalike-ignore')
        if desc.get('cwd_level') is not None:
            classes.append('relative-start-path')
        if via_link:
            classes.append('symlinked-start')
            if any(l['ign'] for l in desc['levels']):
                # what "the starting path" is relative to a Manifest above
                # the link's target is not settled for symlinked starts
                return ok(classes=classes + ['symlinked-start-with-ignores'],
                          dontcare=True)
        what = (f'find_top_level_manifest({ask!r} from cwd level '
                f'{desc.get("cwd_level")}, depth {desc["start"]}, '
                f'allow_xdev={desc["allow_xdev"]}, '
                f'allow_compressed={desc["allow_compressed"]})')
        if 'unparsable' in flags:
            if oc.kind == 'return':
                return ok(classes=classes + ['unparsable'], dontcare=True)
            if isinstance(oc.exc, GematoException):
                return ok(classes=classes + ['unparsable'])
            return violation(
                f'{what}: unparsable Manifest on the way up: '
                f'{oc.describe()}', sig='unparsable:' + buckets.signature(
                    oc.exc), classes=classes)
        if oc.kind != 'return':
            return violation(f'{what} raised {oc.describe()}',
                             sig='raised:' + buckets.signature(oc.exc),
                             classes=classes)
        got = os.path.realpath(oc.value) if oc.value else None
        got_lex = os.path.normpath(oc.value) if oc.value else None
        if desc['linked'] is not None or 'manifest-on-other-device' in flags:
            if got and not desc['allow_xdev'] and \
                    os.stat(got).st_dev != os.stat(start).st_dev:
                return violation(
                    f'{what} returned {got_lex}, which is on another device',
                    sig='other-device-returned', classes=classes)
            return ok(nontrivial=True, classes=classes + ['linked-manifest'],
                      dontcare=True)
        if 'file-entry-for-start' in flags:
            return ok(classes=classes, dontcare=True)
        exp_real = os.path.realpath(exp) if exp else None
        if got != exp_real:
            return violation(
                f'{what} returned {got_lex!r}, the outermost covering '
                f'Manifest is {exp!r} (levels: '
                f'{[(l["m"], l["ign"], l["mount"]) for l in desc["levels"]]})',
                sig=('returned-none' if got is None else
                     'expected-none' if exp is None else 'wrong-manifest'),
                classes=classes)
        if got and not desc['allow_xdev'] and \
                os.stat(got).st_dev != os.stat(start).st_dev:
            return violation(f'{what} returned {got_lex} on another device',
                             sig='other-device-returned', classes=classes)
        # ask again after the answer changed: remove the Manifest that was
        # returned (no state may survive between two searches)
        if got and desc['linked'] is None:
            os.unlink(got)
            exp2, flags2 = reference(start, desc['allow_xdev'],
                                     desc['allow_compressed'])
            oc2 = gem.call(find_top_level_manifest, start,
                           allow_xdev=desc['allow_xdev'],
                           allow_compressed=desc['allow_compressed'])
            if not flags2 and oc2.kind == 'return':
                got2 = os.path.realpath(oc2.value) if oc2.value else None
                exp2r = os.path.realpath(exp2) if exp2 else None
                if got2 != exp2r:
                    return violation(
                        f'{what}: after removing {got_lex!r} a second search '
                        f'returned {oc2.value!r}, expected {exp2!r}',
                        sig='stale-second-search', classes=classes)
            classes.append('searched-twice')
        nontrivial = nman >= 2 or lookalike or need_mount
        return ok(nontrivial=nontrivial, classes=classes)
    finally:
        if link_path is not None and os.path.islink(link_path):
            os.unlink(link_path)
        if mountns._state['ok']:
            mountns.umount_all_under(base)
        harness.rmtree(base)


# --- discovery per command-line path -----------------------------------------

@st.composite
def cli_paths_case(draw):
    d = draw(c01.case())
    nodes = d['tree']['nodes']
    dirs = [''] + [n['p'] for n in nodes if n['t'] == 'd']
    return {'c01': d,
            'paths': draw(st.lists(st.sampled_from(dirs), min_size=2,
                                   max_size=3)),
            'cmd': draw(st.sampled_from(['verify', 'verify', 'update']))}


def strat_cli_paths(tier):
    return cli_paths_case()


def run_cli_paths(desc):
    """`gemato verify -k P1 P2 ...` is `gemato verify -k P1`, then P2, ...:
    the top-level Manifest is searched for every path on its own."""
    base = harness.fresh_dir('c15p')
    try:
        root = os.path.join(base, 'sep')
        os.mkdir(root)
        c01.build(desc['c01'], root)
        both = os.path.join(base, 'all')
        os.mkdir(both)
        c01.build(desc['c01'], both)
        args = ['verify', '-k'] if desc['cmd'] == 'verify' else \
            ['update', '--hashes', 'MD5']
        classes = ['cmd:' + desc['cmd'], f'paths:{len(desc["paths"])}']

        def run(tree, subs):
            ps = [os.path.join(tree, s) if s else tree for s in subs]
            if not all(os.path.isdir(p) for p in ps):
                return None
            oc, records, _ = gem.cli(args + ps)
            errs = gem.error_records(records)
            # (an exception caught by main() ends the whole invocation)
            # or an error other than a mismatch handed to the keep-going
            # handler (no top-level Manifest, ...)
            aborted = any(r.funcName != 'verify_failure' for r in errs) \
                or oc.kind != 'return'
            msgs = sorted(
                r.getMessage().replace(tree, '<tree>') for r in errs)
            return oc, aborted, msgs
        sep = []
        for sub in desc['paths']:
            r = run(root, [sub])
            if r is None:
                return skip('path-vanished')
            sep.append(r)
            if r[1]:
                break       # the combined run stops here as well
        comb = run(both, desc['paths'][:len(sep)])
        if comb is None:
            return skip('path-vanished')
        what = (f'`gemato {" ".join(args)}` with paths '
                f'{desc["paths"][:len(sep)]!r}')
        if any(oc.kind != 'return' for oc, a, m in sep) \
                or comb[0].kind != 'return':
            return ok(classes=classes + ['escaped-exception'],
                      dontcare=True)       # C18's subject
        want_rc = 1 if any(oc.value not in (0, None)
                           for oc, a, m in sep) else 0
        got_rc = 0 if comb[0].value in (0, None) else 1
        want_msgs = sorted(x for oc, a, m in sep for x in m)
        got_msgs = sorted(x.replace('<tree>', '<tree>') for x in comb[2])
        if got_rc != want_rc:
            return violation(
                f'{what}: exit status {comb[0].value!r}, one by one: '
                f'{[oc.value for oc, a, m in sep]!r}; messages together '
                f'{got_msgs[:4]!r}, one by one {want_msgs[:4]!r}',
                sig='paths-together-differ:exit-status', classes=classes)
        if desc['cmd'] == 'verify' and got_msgs != want_msgs:
            return violation(
                f'{what}: errors reported together {got_msgs[:6]!r}, one '
                f'by one {want_msgs[:6]!r}',
                sig='paths-together-differ:messages', classes=classes)
        distinct = len(set(desc['paths'][:len(sep)])) >= 2
        return ok(nontrivial=distinct, classes=classes + (
            ['some-failure'] if want_rc else ['all-pass']))
    finally:
        harness.rmtree(base)


PARTS = [
    Part('cli-paths', run_cli_paths, strategy=strat_cli_paths,
         examples={'quick': 4000, 'thorough': 60000},
         budget={'quick': 30, 'thorough': 400}),
    Part('discovery', run_case, strategy=strat,
         examples={'quick': 30000, 'thorough': 600000},
         budget={'quick': 50, 'thorough': 600}),
]

LEVEL_TEXT = ('Generated directory chains compared with an upward-walk '
              'reference model; real device boundaries through tmpfs mounts '
              'in a private mount namespace.')
LEVEL_NOTE = ('Trusted: refmanifest for parsing, the kernel\'s st_dev, the '
              'mount namespace helper. The real ancestors of the scratch '
              'directory are inspected by the model as well, so a stray '
              'Manifest above cannot cause an alarm.')
TECHNIQUE = ('model-based property testing (Hypothesis) against an '
             'upward-walk reference, with real tmpfs device boundaries')
