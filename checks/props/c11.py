# C11 - Incremental update equals full update.

import datetime as real_datetime
import os
import time

from hypothesis import strategies as st

import buckets
import gem
import harness
import refmanifest as R
import refscan
import treegen
from harness import Part, ok, violation, skip

import gemato.cli

PROPERTY = 'C11'
LEVEL = 'exploration'
RULE = ('Hypothesis histories: initial tree (2..8 files in <= 3 dirs), '
        '`gemato create -t` at virtual time T0 on two identical replicas; '
        '1..4 rounds of file operations (add, delete, modify keeping the '
        'size, modify changing the size, touch only) with explicit mtimes: '
        'same-size modifications get an mtime in (P, now] (P = previous '
        'TIMESTAMP), unmodified files get mtimes older than, equal to and '
        'newer than P, size changes may carry an mtime <= P; the virtual '
        'clock advances by a generated amount (0.5 s .. 28 h, incl. the TZ '
        'offset); replica A runs `update -i`, replica B `update`; TZ in '
        '{UTC, UTC+5:30, UTC-8, UTC+14, UTC-12}. Oracle: entry sets of all '
        'Manifests equal (TIMESTAMP dropped), B passes the exact-cover '
        'scan, every written TIMESTAMP <= virtual time of the first '
        'directory scan. (schedule) during an `update -t`, after the i-th '
        'data file was hashed the harness rewrites an already hashed file '
        '(same size, mtime = virtual now); the next `update -i` must equal '
        'a full update. Non-trivial: a round with a same-size modification '
        'within 14 h after P, or a size change with mtime <= P, or the '
        'injection; distinct by descriptor hash.')
ASSUMPTIONS = [
    'Time is owned by the harness: gemato.cli.datetime is replaced by a '
    'virtual clock (utcnow()/now()); a case in which the clock was never '
    'consulted makes no claim about TIMESTAMP values.',
    'File timestamps have sub-second resolution (tmpfs); the property\'s '
    'precondition "modified files are newer than the previous TIMESTAMP" '
    'is established by construction.',
    'A concurrent writer is modelled by a harness-owned interleaving at '
    'file granularity.',
]

T0 = 1_600_000_000
TICK = 0.001        # virtual time consumed by one filesystem call
TZS = ['UTC0', 'XXX-5:30', 'XXX+8', 'XXX-14', 'XXX+12']
HASHES = 'MD5 SHA1'


class Clock:
    def __init__(self, now):
        self.now = float(now)
        self.calls = 0
        self.first_scan = None


class FakeDatetimeModule:
    """Stand-in for the datetime module as seen by gemato.cli."""

    def __init__(self, clock):
        self._clock = clock
        clk = clock

        class datetime(real_datetime.datetime):
            @classmethod
            def utcnow(cls):
                clk.calls += 1
                return (real_datetime.datetime(1970, 1, 1)
                        + real_datetime.timedelta(seconds=clk.now))

            @classmethod
            def now(cls, tz=None):
                clk.calls += 1
                aware = (real_datetime.datetime(
                    1970, 1, 1, tzinfo=real_datetime.timezone.utc)
                    + real_datetime.timedelta(seconds=clk.now))
                if tz is None:
                    return aware.astimezone().replace(tzinfo=None)
                return aware.astimezone(tz)
        self.datetime = datetime

    def __getattr__(self, name):
        return getattr(real_datetime, name)


class TimeEnv:
    """Virtual clock + TZ + scandir/open observation for one CLI call."""

    def __init__(self, clock, tz, root, on_data_open=None):
        self.clock = clock
        self.tz = tz
        self.root = os.path.realpath(root)
        self.on_data_open = on_data_open
        self.data_opens = 0

    def __enter__(self):
        self.old_tz = os.environ.get('TZ')
        os.environ['TZ'] = self.tz
        time.tzset()
        self.old_dt = gemato.cli.datetime
        gemato.cli.datetime = FakeDatetimeModule(self.clock)
        self.real_scandir = os.scandir
        self.real_open = os.open
        self.real_time = time.time
        env = self

        def fake_time():
            env.clock.calls += 1
            return env.clock.now
        time.time = fake_time

        def scandir(path='.'):
            p = os.path.abspath(os.fspath(path))
            if p.startswith(env.root):
                if env.clock.first_scan is None:
                    env.clock.first_scan = env.clock.now
                env.clock.now += TICK
            return env.real_scandir(path)

        def os_open(path, flags, *a, **kw):
            p = os.path.abspath(os.fspath(path))
            if p.startswith(env.root):
                env.clock.now += TICK
                if not os.path.basename(p).startswith('Manifest') \
                        and env.clock.first_scan is not None:
                    env.data_opens += 1
                    if env.on_data_open:
                        env.on_data_open(env.data_opens, p)
            return env.real_open(path, flags, *a, **kw)
        os.scandir = scandir
        os.open = os_open
        return self

    def __exit__(self, *a):
        os.scandir = self.real_scandir
        os.open = self.real_open
        time.time = self.real_time
        gemato.cli.datetime = self.old_dt
        if self.old_tz is None:
            os.environ.pop('TZ', None)
        else:
            os.environ['TZ'] = self.old_tz
        time.tzset()
        return False


# --- generation --------------------------------------------------------------

NAMES = ['a', 'b', 'c', 'd', 'e', 'f g', 'é', 'h.txt']


@st.composite
def history(draw):
    dirs = ['']
    for d in draw(st.lists(st.sampled_from(['x', 'y', 'x/z']), max_size=3,
                           unique=True)):
        if d == 'x/z' and 'x' not in dirs:
            dirs.append('x')
        dirs.append(d)
    files = {}
    for _ in range(draw(st.integers(2, 8))):
        p = draw(st.sampled_from(dirs))
        n = draw(st.sampled_from(NAMES))
        path = (p + '/' if p else '') + n
        files[path] = {
            'c': draw(st.text(alphabet='abcdef', min_size=1, max_size=8)),
            'age': draw(st.sampled_from([10, 100, 5000, 40000, 100000]))}
    rounds = []
    for _ in range(draw(st.integers(1, 4))):
        ops = []
        for _ in range(draw(st.integers(1, 5))):
            k = draw(st.sampled_from(['same', 'same', 'same', 'resize', 'add',
                                      'delete', 'touch', 'add-dir',
                                      'edit-sub']))
            ops.append({
                'k': k, 'sel': draw(st.integers(0, 50)),
                'name': draw(st.sampled_from(['n1', 'n2', 'x/n3', 'n 4'])),
                # position of the new mtime: fraction of (P, now] for
                # modifications; offset relative to P otherwise
                'frac': draw(st.sampled_from([0.0001, 0.01, 0.3, 0.5, 0.9,
                                              1.0])),
                'rel': draw(st.sampled_from([-100000, -3600, -1, 0, 0.5, 1,
                                             3600, 30000])),
                'c': draw(st.text(alphabet='XYZ', min_size=1, max_size=8)),
            })
        rounds.append({
            'ops': ops,
            # a (non-incremental) update of one sub-directory on both copies
            # before the two whole-tree updates are compared
            'partial': draw(st.sampled_from([None, None, None] + dirs[1:])),
            # the incremental update names a second, unrelated tree (with a
            # younger TIMESTAMP) after this one
            'decoy': draw(st.integers(0, 3)) == 0,
            # directory mtimes put back to P + this (rsync -a, tar -x, cp -a
            # do that): the history speaks of file mtimes only
            'dirs_back': draw(st.sampled_from([None, None, -100, 0])),
            'advance': draw(st.sampled_from([0.1, 0.3, 0.5, 1, 2, 60, 3600, 19800,
                                             28800, 43200, 50400, 100000])),
        })
    return {'files': files, 'rounds': rounds,
            'tz': draw(st.sampled_from(TZS)),
            'frac0': draw(st.sampled_from([0.0, 0.5, 0.6, 0.75, 0.999]))}


def strat(tier):
    return history()


def manifest_entries(root):
    """logical Manifest -> sorted entry lines without TIMESTAMP"""
    sc = refscan.load_all(root)
    out = {}
    ts = []
    for mp, entries in sc.manifests.items():
        out[R.strip_compression(mp)] = sorted(
            e.to_line() for e in entries if e.tag != 'TIMESTAMP')
        ts += [e.ts for e in entries if e.tag == 'TIMESTAMP']
    return out, ts, sc


def epoch(ts):
    return (ts - real_datetime.datetime(1970, 1, 1)).total_seconds()


def write_file(root, path, content, mtime):
    full = os.path.join(root, path)
    os.makedirs(os.path.dirname(full), exist_ok=True)
    with open(full, 'w') as f:
        f.write(content)
    os.utime(full, (mtime, mtime))


def run_cli(root, clock, tz, args, on_data_open=None, sub=None, more=()):
    clock.first_scan = None
    with TimeEnv(clock, tz, root, on_data_open) as env:
        oc, records, _ = gem.cli(args + ['--hashes', HASHES] + (
            [os.path.join(root, s) for s in sub] if sub else [root])
            + list(more))
    return oc, env


def check_ts(root, clock, what, classes):
    _, ts, _ = manifest_entries(root)
    if clock.calls == 0 or clock.first_scan is None:
        return None
    for t in ts:
        if epoch(t) > clock.first_scan:
            return violation(
                f'{what}: TIMESTAMP {t} ({epoch(t)}) is later than the '
                f'moment scanning started (virtual {clock.first_scan})',
                sig='timestamp-after-scan-start', classes=classes)
        if t.microsecond:
            return violation(f'{what}: TIMESTAMP {t} has sub-second part',
                             sig='timestamp-resolution', classes=classes)
    return None


def run_case(desc):
    base = harness.fresh_dir('c11')
    A = os.path.join(base, 'A')
    B = os.path.join(base, 'B')
    tz = desc['tz']
    classes = ['tz:' + tz]
    try:
        now = T0 + desc['frac0']
        for r in (A, B):
            os.mkdir(r)
            for p, f in desc['files'].items():
                write_file(r, p, f['c'], T0 - f['age'])
        clocks = {A: Clock(now), B: Clock(now)}
        for r in (A, B):
            oc, env = run_cli(r, clocks[r], tz, ['create', '-t'])
            if oc.kind != 'return' or oc.value != 0:
                return violation(f'create -t failed: {oc.describe()}',
                                 sig='create-failed', classes=classes)
            v = check_ts(r, clocks[r], 'create -t', classes)
            if v is not None:
                return v
        if clocks[A].calls == 0:
            return skip('clock-shim-not-reached')
        state = {p: dict(f) for p, f in desc['files'].items()}
        nontrivial = False
        sub_manifests = []
        for ri, rnd in enumerate(desc['rounds']):
            _, ts, _ = manifest_entries(A)
            if not ts:
                return violation('TIMESTAMP missing after create/update -t',
                                 sig='timestamp-missing', classes=classes)
            P = epoch(ts[0])
            now = max(clocks[A].now, clocks[B].now) + rnd['advance']
            modified = set()
            at_start = set(state)
            for op in rnd['ops']:
                paths = sorted(state)
                k = op['k']
                if k in ('same', 'resize', 'delete', 'touch') and not paths:
                    continue
                p = paths[op['sel'] % len(paths)] if paths else None
                if k == 'same':
                    old = state[p]['c']
                    new = ''.join('Q' if ch != 'Q' else 'R' for ch in old)
                    m = P + (now - P) * op['frac']
                    if m <= P:
                        m = P + 0.0005
                    state[p]['c'] = new
                    modified.add(p)
                    for r in (A, B):
                        write_file(r, p, new, m)
                    if m - P <= 50400:
                        nontrivial = True
                        classes.append('same-size-near-P')
                elif k == 'resize':
                    new = state[p]['c'] + op['c']
                    m = min(now, P + op['rel'])
                    if p in modified and m <= P:
                        m = P + 0.0005
                    state[p]['c'] = new
                    for r in (A, B):
                        write_file(r, p, new, m)
                    if m <= P:
                        nontrivial = True
                        classes.append('resize-old-mtime')
                elif k == 'add':
                    p = op['name']
                    if p in state or os.path.isdir(os.path.join(A, p)):
                        continue
                    m = min(now, P + op['rel'])
                    if p in at_start and m <= P:
                        # delete + re-add is a modification of that path
                        m = P + 0.0005
                    state[p] = {'c': op['c']}
                    for r in (A, B):
                        write_file(r, p, op['c'], m)
                    classes.append('add')
                elif k == 'add-dir':
                    # a directory that arrives complete with a Manifest of
                    # its own (copied with its old mtimes preserved)
                    d = 'pkg-' + op['name'].replace('/', '_').replace(' ', '')
                    if os.path.lexists(os.path.join(A, d)):
                        continue
                    m = min(now, P + op['rel'])
                    data = {d + '/inner1': op['c'], d + '/inner2': 'two'}
                    lines = ''.join(
                        R.Entry('DATA', path=os.path.basename(fp),
                                size=len(fc),
                                checksums=R.digests(fc.encode(),
                                                    HASHES.split())
                                ).to_line() + '\n'
                        for fp, fc in sorted(data.items()))
                    for r in (A, B):
                        for fp, fc in data.items():
                            write_file(r, fp, fc, m)
                        write_file(r, d + '/Manifest', lines, m)
                    for fp, fc in data.items():
                        state[fp] = {'c': fc}
                    sub_manifests.append(d + '/Manifest')
                    classes.append('add-dir-with-manifest')
                    if m <= P:
                        nontrivial = True
                        classes.append('add-dir-with-manifest-old-mtime')
                elif k == 'edit-sub':
                    # a sub-Manifest edited by hand (a DIST line appended):
                    # a modified file like any other
                    live = [x for x in sub_manifests
                            if os.path.exists(os.path.join(A, x))]
                    if not live:
                        continue
                    sm = live[op['sel'] % len(live)]
                    m = P + (now - P) * op['frac']
                    if m <= P:
                        m = P + 0.0005
                    for r in (A, B):
                        full = os.path.join(r, sm)
                        with open(full, 'a') as f:
                            f.write(f'DIST d{op["sel"]}.tar 1 MD5 00\n')
                        os.utime(full, (m, m))
                    nontrivial = True
                    classes.append('sub-manifest-edited')
                elif k == 'delete':
                    del state[p]
                    for r in (A, B):
                        os.unlink(os.path.join(r, p))
                    classes.append('delete')
                elif k == 'touch':
                    if p in modified:
                        # a modified file must stay newer than P
                        continue
                    m = min(now, P + op['rel'])
                    for r in (A, B):
                        os.utime(os.path.join(r, p), (m, m))
                    classes.append('touch')
            part = rnd.get('partial')
            if part and os.path.isdir(os.path.join(A, part)):
                for r in (A, B):
                    clocks[r].now = now
                    oc, env = run_cli(r, clocks[r], tz, ['update'],
                                      sub=[part])
                    if oc.kind != 'return' or oc.value != 0:
                        return violation(
                            f'round {ri}: `gemato update <tree>/{part}` '
                            f'failed: {oc.describe()}',
                            sig='update-failed', classes=classes)
                now = max(clocks[A].now, clocks[B].now) + 1.5
                classes.append('partial-update-first')
            more = {A: (), B: ()}
            if rnd.get('decoy'):
                D = os.path.join(base, f'decoy{ri}')
                os.mkdir(D)
                write_file(D, 'only', 'x', now - 5)
                dclock = Clock(now)
                oc, env = run_cli(D, dclock, tz, ['create', '-t'])
                if oc.kind == 'return' and oc.value == 0:
                    more[A] = (D,)
                    now = max(now, dclock.now) + 1.5
                    classes.append('second-tree-in-the-same-invocation')
            if rnd.get('dirs_back') is not None:
                for r in (A, B):
                    for dp, dn, fn in os.walk(r, topdown=False):
                        os.utime(dp, (P + rnd['dirs_back'],) * 2)
                classes.append('directory-mtimes-set-back')
                if any(c == 'add' for c in classes):
                    nontrivial = True
            for r, args in ((A, ['update', '-i']), (B, ['update'])):
                clocks[r].now = now
                oc, env = run_cli(r, clocks[r], tz, args, more=more[r])
                if oc.kind != 'return' or oc.value != 0:
                    return violation(
                        f'round {ri}: `gemato {" ".join(args)}` failed: '
                        f'{oc.describe()}', sig='update-failed',
                        classes=classes)
                v = check_ts(r, clocks[r],
                             f'round {ri} `gemato {" ".join(args)}`', classes)
                if v is not None:
                    return v
            ea, _, _ = manifest_entries(A)
            eb, _, _ = manifest_entries(B)
            if ea != eb:
                diff = {k: (ea.get(k), eb.get(k)) for k in set(ea) | set(eb)
                        if ea.get(k) != eb.get(k)}
                return violation(
                    f'round {ri} (TZ {tz}, previous TIMESTAMP {P}, now '
                    f'{now}, ops {rnd["ops"]!r}): incremental and full '
                    f'update differ: {diff!r}',
                    sig='incremental-differs', classes=classes)
            sc = refscan.scan(B, 'Manifest', '', HASHES.split())
            if sc.problems:
                return violation(
                    f'round {ri}: full update does not describe the tree: '
                    f'{sc.problems[:4]!r}', sig='full-update-wrong',
                    classes=classes)
        return ok(nontrivial=nontrivial, classes=sorted(set(classes)))
    finally:
        harness.rmtree(base)


# --- schedule part -----------------------------------------------------------

@st.composite
def schedule(draw):
    h = draw(history())
    h['inject_after'] = draw(st.integers(1, 8))
    h['victim'] = draw(st.integers(0, 50))
    return h


def strat_schedule(tier):
    return schedule()


def run_schedule(desc):
    base = harness.fresh_dir('c11s')
    A = os.path.join(base, 'A')
    B = os.path.join(base, 'B')
    tz = desc['tz']
    classes = ['tz:' + tz]
    try:
        now = T0 + desc['frac0']
        for r in (A, B):
            os.mkdir(r)
            for p, f in desc['files'].items():
                write_file(r, p, f['c'], T0 - f['age'])
        clk = Clock(now)
        oc, env = run_cli(A, clk, tz, ['create', '-t'])
        if oc.kind != 'return' or oc.value != 0:
            return skip('create-failed')
        if clk.calls == 0:
            return skip('clock-shim-not-reached')
        # make every file stale so that the running update hashes them all
        clk.now += 1000
        for p, f in desc['files'].items():
            write_file(A, p, f['c'] + '!', clk.now - 500)
        hashed = []
        injected = {}

        def on_open(n, path):
            rel = os.path.relpath(path, os.path.realpath(A))
            if n - 1 == desc['inject_after'] and hashed and not injected:
                victim = hashed[desc['victim'] % len(hashed)]
                old = desc['files'][victim]['c'] + '!'
                new = ''.join('Q' if ch != 'Q' else 'R' for ch in old)
                write_file(A, victim, new, clk.now)
                injected[victim] = new
            hashed.append(rel)
        oc, env = run_cli(A, clk, tz, ['update', '-t'], on_data_open=on_open)
        if oc.kind != 'return' or oc.value != 0:
            return violation(f'update -t failed: {oc.describe()}',
                             sig='update-failed', classes=classes)
        v = check_ts(A, clk, 'update -t under concurrent modification',
                     classes)
        if v is not None:
            return v
        if not injected:
            return ok(classes=classes + ['no-injection'])
        # replica B: the final tree, fully updated
        for p, f in desc['files'].items():
            write_file(B, p, injected.get(p, f['c'] + '!'), T0)
        clkb = Clock(clk.now)
        oc, _ = run_cli(B, clkb, tz, ['create', '-t'])
        clk.now += 5
        oc, _ = run_cli(A, clk, tz, ['update', '-i'])
        if oc.kind != 'return' or oc.value != 0:
            return violation(f'update -i failed: {oc.describe()}',
                             sig='update-failed', classes=classes)
        ea, _, _ = manifest_entries(A)
        eb, _, _ = manifest_entries(B)
        if ea != eb:
            diff = {k: (ea.get(k), eb.get(k)) for k in set(ea) | set(eb)
                    if ea.get(k) != eb.get(k)}
            return violation(
                f'file {sorted(injected)} changed (same size) after it had '
                f'been hashed by a running `update -t`; the following '
                f'`update -i` (TZ {tz}) did not pick it up: {diff!r}',
                sig='concurrent-change-missed', classes=classes)
        return ok(nontrivial=True, classes=classes + ['injected'])
    finally:
        harness.rmtree(base)


PARTS = [
    Part('histories', run_case, strategy=strat,
         examples={'quick': 10000, 'thorough': 150000},
         budget={'quick': 50, 'thorough': 700}),
    Part('schedule', run_schedule, strategy=strat_schedule,
         examples={'quick': 4000, 'thorough': 60000},
         budget={'quick': 40, 'thorough': 500}),
]

LEVEL_TEXT = ('Generated edit histories replayed on two replicas '
              '(incremental vs full) under five TZ settings with a '
              'harness-owned clock, plus a harness-owned interleaving that '
              'modifies a file after it was hashed.')
LEVEL_NOTE = ('Trusted: the virtual clock shim on gemato.cli.datetime '
              '(self-checked: cases where it was never consulted are '
              'skipped), os.utime/tmpfs nanosecond timestamps, refscan.')
TECHNIQUE = ('differential property-based testing over histories '
             '(Hypothesis) with a harness-owned clock, timezone and '
             'schedule')
