# C09 - Malformed Manifest text is always rejected with a syntax error,
#       never misread.
#
# Oracle: three-valued reference grammar (lib/refmanifest.py) + totality
# ("only ManifestSyntaxError / ManifestUnsignedData escape") + "no silent
# skipping" (entries == non-blank lines) + exact entries for canonical text.

import io
import itertools

from hypothesis import strategies as st

import buckets
import refmanifest as R
from harness import Part, ok, violation

from gemato.exceptions import ManifestSyntaxError, ManifestUnsignedData
from gemato.manifest import ManifestFile

PROPERTY = 'C09'
LEVEL = 'exploration'
RULE = ('Texts from (grammar) a Hypothesis line grammar with every field '
        'independently valid/invalid, (tokens) all sequences of 1..4 (quick) '
        '/ 1..5 (thorough) tokens over a 25-token alphabet, (escapes) every '
        '\\xHH and \\uHHHH value and \\UHHHHHHHH over 0..0x11FFFF (quick: '
        'stride 17 + boundaries) plus 32-bit specials in 3 contexts x 2 hex '
        'cases, (mutations) character-level mutations of valid Manifests. '
        'Loaded with ManifestFile.load(StringIO) and compared with a '
        'three-valued reference grammar. Non-trivial: >= 1 non-blank line '
        'and the reference verdict is MUST-ACCEPT or MUST-REJECT; distinct '
        'by text hash (enumerated parts: distinct by construction).')
ASSUMPTIONS = [
    'The reference grammar in checks/lib/refmanifest.py is the statement of '
    'well-formedness: int()-only sizes, loosely padded timestamps, surrogate '
    'escapes, raw control characters and repeated checksum names are '
    'DONT-CARE.',
    'Text is handed over as a text stream that splits lines at LF only.',
    'Lines of the OpenPGP cleartext framework are C04\'s subject.',
]


def entry_key(e):
    tag = e.tag
    if tag == 'TIMESTAMP':
        return (tag, None, None, None, e.ts.isoformat())
    if tag == 'IGNORE':
        return (tag, e.path, None, None, None)
    return (tag, e.path, e.size, tuple(sorted(e.checksums.items())), None)


def check_text(text, classes=()):
    verdict, expected, nonblank, reasons = R.classify_text(text)
    classes = list(classes) + [f'ref:{verdict}']
    m = ManifestFile()
    try:
        m.load(io.StringIO(text), verify_openpgp=False)
    except (ManifestSyntaxError, ManifestUnsignedData):
        outcome = 'reject'
    except Exception as e:
        return violation(
            f'text {text!r}: unexpected exception type\n'
            + buckets.describe(e),
            sig=buckets.signature(e), classes=classes)
    else:
        outcome = 'accept'
    classes.append(f'gemato:{outcome}')
    nontrivial = nonblank >= 1 and verdict != R.DONTCARE
    if verdict == R.REJECT and outcome == 'accept':
        why = sorted(set(reasons))
        return violation(
            f'text {text!r}: malformed ({why}) but accepted as '
            f'{[entry_key(e) for e in m.entries]!r}',
            sig='accepted-malformed:' + '+'.join(why), classes=classes)
    if verdict == R.ACCEPT and outcome == 'reject':
        return violation(f'text {text!r}: well-formed but rejected',
                         sig='rejected-wellformed', classes=classes)
    if outcome == 'accept' and 'signed-framework' not in reasons:
        if len(m.entries) != nonblank:
            return violation(
                f'text {text!r}: {nonblank} non-blank lines but '
                f'{len(m.entries)} entries (line silently skipped)',
                sig='line-skipped', classes=classes)
    if verdict == R.ACCEPT:
        got = [entry_key(e) for e in m.entries]
        exp = [e.key() for e in expected]
        if got != exp:
            return violation(
                f'text {text!r}: parsed as {got!r}, expected {exp!r}',
                sig='misread', classes=classes)
    return ok(nontrivial=nontrivial, classes=classes,
              dontcare=(verdict == R.DONTCARE))


# --- grammar ---------------------------------------------------------------

PLAIN = 'abzAZ09._+-,:=@~/éж漢\U0001F600#"\''
NEED_ESC = ' \t\\\n\r\x00\x1f\x7f\x85\xa0\u2028\u3000'


@st.composite
def valid_path_token(draw, allow_slash=True):
    n = draw(st.integers(1, 8))
    out = []
    for i in range(n):
        if draw(st.integers(0, 3)) == 0:
            ch = draw(st.sampled_from(NEED_ESC + 'aé\U0001F600'))
            cp = ord(ch)
            form = draw(st.integers(0, 2))
            if cp <= 0xFF and form == 0:
                t = '\\x%02X' % cp
            elif cp <= 0xFFFF and form <= 1:
                t = '\\u%04X' % cp
            else:
                t = '\\U%08X' % cp
            if draw(st.booleans()):
                t = t[:2] + t[2:].lower()
            out.append(t)
        else:
            ch = draw(st.sampled_from(PLAIN))
            if ch == '/' and (i == 0 or not allow_slash):
                ch = 'a'
            out.append(ch)
    return ''.join(out)


INVALID_PATHS = [
    '/abs', '/', '\\x2Fabs', '\\x2f', '\\u002Fetc/passwd', '\\U0000002Fa',
    '\\', 'a\\', 'a\\q', '\\x4', '\\xZZ', 'a\\x4g', '\\u123', '\\u12G4',
    '\\U0011000', '\\U00110000', '\\UFFFFFFFF', '\\U7FFFFFFF', '\\U80000000',
    '\\X41', '\\\\', '\\n', '\\ ',
    # decimal digits that are not ASCII are not hex digits
    '\\x\u0664\u0661', '\\u00\uff14\uff11', '\\U0000004\uff11', 'a\\x4\u0661b',
    '\\u\u0966\u0966\u0967\u0968',
]
DONTCARE_PATHS = ['\\uD800', '\\udfff', '\\U0000DC00', 'a\x01b', '\x7f']
VALID_SIZES = ['0', '1', '12', '12345', '007', str(2 ** 64), str(2 ** 31)]
INVALID_SIZES = ['-1', '-12', 'x', '1e3', '1.0', '0x10', '1,0', '١٢a', 'NaN',
                 '--1', '1-', '1_', '_1', '+', '-', '1__0',
                 # "digits" for str.isdigit() that int() refuses
                 '\u00b2', '1\u00b2', '\u2460', '4\u2080', '\u00b9\u00b2']
DONTCARE_SIZES = ['+1', '1_0', '-0', '١٢', '１２', '+0_0']
VALID_TS = ['2020-01-01T00:00:00Z', '1999-12-31T23:59:59Z',
            '2024-02-29T12:00:00Z', '9999-12-31T23:59:59Z',
            '1000-01-01T00:00:00Z']
INVALID_TS = ['2020-13-01T00:00:00Z', '2020-01-01', '2020-01-01T00:00:00',
              '20200101T000000Z', 'now', '2020-02-30T00:00:00Z',
              '2020-01-01T24:00:00Z', '2020-01-01T00:60:00Z',
              '2020-01-01t00:00:00Z', '2020-01-01T00:00:00z',
              '2020-01-01T00:00:00+00:00', '0000-01-01T00:00:00Z',
              '2023-02-29T00:00:00Z', '2020-01-01T00:00:00.5Z',
              '-020-01-01T00:00:00Z', '2020/01/01T00:00:00Z']
DONTCARE_TS = ['2020-1-1T0:0:0Z', '2020-01-01T00:00:60Z', '999-01-01T00:00:00Z']
CK_NAMES = ['MD5', 'SHA1', 'SHA256', 'SHA512', 'BLAKE2B', 'FOO', 'md5']
CK_VALUES = ['d41d8cd98f00b204e9800998ecf8427e', 'abc', '0', 'XYZ', '-']
BAD_TAGS = ['FOO', 'data', 'DATA:', 'MANIFEST2', 'IGNOREE', 'Data', '-',
            'D', 'TIMESTAMPS', 'DIST\\x20']
SEPS = [' ', ' ', ' ', '  ', '\t', ' \t ', '\u00a0', '\x1f', '\u2003']


@st.composite
def line(draw, p_invalid=0.25):
    def bad():
        return draw(st.floats(0, 1)) < p_invalid
    tag = draw(st.sampled_from(R.ALL_TAGS))
    if bad():
        tag = draw(st.sampled_from(BAD_TAGS))
    if tag == 'TIMESTAMP':
        r = draw(st.integers(0, 19))
        if bad():
            ts = draw(st.sampled_from(INVALID_TS))
        elif r == 0:
            ts = draw(st.sampled_from(DONTCARE_TS))
        else:
            ts = draw(st.sampled_from(VALID_TS))
        toks = [tag, ts]
    else:
        if bad():
            path = draw(st.sampled_from(INVALID_PATHS))
        elif draw(st.integers(0, 29)) == 0:
            path = draw(st.sampled_from(DONTCARE_PATHS))
        else:
            path = draw(valid_path_token(allow_slash=(tag != 'DIST')))
        if tag == 'DIST' and bad():
            path = draw(st.sampled_from(['a/b', 'a\\x2Fb', 'a/', 'a\\u002fb']))
        toks = [tag, path]
        if tag != 'IGNORE':
            if bad():
                size = draw(st.sampled_from(INVALID_SIZES))
            elif draw(st.integers(0, 29)) == 0:
                size = draw(st.sampled_from(DONTCARE_SIZES))
            else:
                size = draw(st.sampled_from(VALID_SIZES))
            toks.append(size)
            names = draw(st.lists(st.sampled_from(CK_NAMES), max_size=4,
                                  unique=draw(st.integers(0, 9)) != 0))
            for n in names:
                toks += [n, draw(st.sampled_from(CK_VALUES))]
            if bad():
                toks.append(draw(st.sampled_from(CK_NAMES)))
    # field-count defects
    if bad():
        k = draw(st.integers(1, len(toks)))
        toks = toks[:k]
    elif bad():
        toks.append(draw(st.sampled_from(['x', '0', 'MD5'])))
    seps = [draw(st.sampled_from(SEPS)) for _ in toks]
    lead = draw(st.sampled_from(['', '', '', ' ', '\t']))
    trail = draw(st.sampled_from(['', '', '', ' ', '\r', ' \t']))
    s = lead
    for i, t in enumerate(toks):
        s += t + (seps[i] if i + 1 < len(toks) else '')
    return s + trail


@st.composite
def grammar_text(draw):
    p_invalid = draw(st.sampled_from([0.0, 0.0, 0.05, 0.15, 0.4]))
    n = draw(st.integers(1, 6))
    lines = []
    for _ in range(n):
        if draw(st.integers(0, 7)) == 0:
            lines.append(draw(st.sampled_from(['', ' ', '\t', '\u00a0'])))
        lines.append(draw(line(p_invalid=p_invalid)))
    text = '\n'.join(lines)
    if draw(st.integers(0, 4)) != 0:
        text += '\n'
    return text


def run_text(desc):
    return check_text(desc['text'])


def strat_grammar(tier):
    return grammar_text().map(lambda t: {'text': t})


# --- mutations ---------------------------------------------------------------

INSERT = ' \\x/\n-0\t\u00a0ZD1\r'


@st.composite
def mutated_text(draw):
    text = draw(grammar_text())
    # valid base most of the time
    n = draw(st.integers(1, 4))
    chars = list(text)
    for _ in range(n):
        if not chars:
            break
        op = draw(st.integers(0, 4))
        i = draw(st.integers(0, len(chars) - 1))
        if op == 0:
            del chars[i]
        elif op == 1:
            chars.insert(i, draw(st.sampled_from(INSERT)))
        elif op == 2:
            j = draw(st.integers(i, min(len(chars), i + 12)))
            chars[i:i] = chars[i:j]
        elif op == 3:
            chars[i] = draw(st.sampled_from(INSERT))
        else:
            j = draw(st.integers(0, len(chars) - 1))
            chars[i], chars[j] = chars[j], chars[i]
    return ''.join(chars)


def strat_mutations(tier):
    return mutated_text().map(lambda t: {'text': t})


# --- exhaustive token sequences ----------------------------------------------

TOKENS = ['TIMESTAMP', 'MANIFEST', 'IGNORE', 'DATA', 'DIST', 'EBUILD', 'MISC',
          'AUX', 'FOO', 'a', 'a/b', '/a', '\\x2Fa', '\\x41', '\\', '\\u12',
          '\\x4\u0661',
          '0', '12', '-1', '1e3', 'MD5', 'abc', '2020-01-01T00:00:00Z',
          '2020-13-01T00:00:00Z']


def enum_tokens(tier, shard, nshards):
    maxlen = 4 if tier == 'quick' else 5
    i = 0
    for n in range(1, maxlen + 1):
        for seq in itertools.product(TOKENS, repeat=n):
            if i % nshards == shard:
                yield {'toks': list(seq)}
            i += 1


def run_tokens(desc):
    return check_text(' '.join(desc['toks']) + '\n', classes=('tokens',))


# --- exhaustive escape values ------------------------------------------------

SPECIAL32 = sorted(set(
    [0x7FFFFFFF, 0x80000000, 0xFFFFFFFF, 0xFFFFFFFE, 0x00110000, 0x0010FFFF,
     0x00110001, 0x0011FFFF, 0x00120000, 0x01000000, 0xD800, 0xDFFF, 0xD7FF,
     0xE000]
    + [2 ** k + d for k in range(0, 32) for d in (-1, 0, 1)
       if 0 <= 2 ** k + d <= 0xFFFFFFFF]))


def escape_values(tier):
    for v in range(256):
        yield 'x', v
    for v in range(65536):
        yield 'u', v
    step = 17 if tier == 'quick' else 1
    for v in range(0, 0x120000, step):
        yield 'U', v
    for v in SPECIAL32:
        yield 'U', v
    # seeded pseudo-random 32-bit values (LCG, independent of VERIF_SEED)
    x = 12345
    for _ in range(2000 if tier == 'quick' else 100000):
        x = (x * 1103515245 + 12345) & 0xFFFFFFFF
        yield 'U', x


def enum_escapes(tier, shard, nshards):
    i = 0
    for form, val in escape_values(tier):
        for ctx in (0, 1, 2):
            for lower in (0, 1):
                if form == 'x' or lower == 0 or val % 7 == 0:
                    if i % nshards == shard:
                        yield {'form': form, 'val': val, 'ctx': ctx,
                               'lower': lower}
                    i += 1


def run_escape(desc):
    width = {'x': 2, 'u': 4, 'U': 8}[desc['form']]
    digits = '%0*X' % (width, desc['val'])
    if desc['lower']:
        digits = digits.lower()
    esc = '\\' + desc['form'] + digits
    tok = [esc, esc + 'etc/passwd', 'a' + esc + '41'][desc['ctx']]
    tag = ('DATA', 'IGNORE', 'MANIFEST')[desc['val'] % 3]
    text = f'{tag} {tok}\n' if tag == 'IGNORE' else f'{tag} {tok} 0\n'
    return check_text(text, classes=(f'escape-{desc["form"]}',))


import fuzzpart  # noqa: E402

PARTS = [
    Part('grammar', run_text, strategy=strat_grammar,
         examples={'quick': 16000, 'thorough': 400000},
         budget={'quick': 40, 'thorough': 400}),
    Part('mutations', run_text, strategy=strat_mutations,
         examples={'quick': 12000, 'thorough': 300000},
         budget={'quick': 40, 'thorough': 400}),
    Part('tokens', run_tokens, enumerate=enum_tokens, exhaustive=True,
         budget={'quick': 120, 'thorough': 900}),
    Part('escapes', run_escape, enumerate=enum_escapes, exhaustive=True,
         budget={'quick': 120, 'thorough': 900}),
    # coverage-guided supplement (atheris/libFuzzer), oracle in the target
    Part('atheris', fuzzpart.run_campaign('c09', check_text),
         enumerate=fuzzpart.enum_campaigns({'quick': 30000,
                                            'thorough': 3000000}),
         budget={'quick': 60, 'thorough': 900}),
]

LEVEL_TEXT = ('Generated and bounded-exhaustive search against a three-valued '
              'reference grammar: all token sequences up to length 4/5 and '
              'all escape values are enumerated completely; line grammar and '
              'mutations are sampled. Absence of violations is shown only '
              'within these bounds.')
LEVEL_NOTE = ('Trusted: the reference grammar (refmanifest.py), Python str.split '
              'whitespace semantics, Hypothesis. DONT-CARE zones are listed '
              'in the assumptions and never produce a verdict mismatch.')
TECHNIQUE = ('property-based testing (Hypothesis grammar + mutation '
             'generators), bounded-exhaustive enumeration and coverage-guided '
             'fuzzing (atheris/libFuzzer) against a reference parser')
