# C02 - Sub-Manifests are trusted only through an unbroken hash chain from
#       the top.

import copy
import os

from hypothesis import strategies as st

import gem
import harness
import layout
import refmanifest as R
import treegen
from harness import Part, ok, violation, skip
from treegen import BASE_MTIME

from gemato.exceptions import ManifestMismatch

PROPERTY = 'C02'
LEVEL = 'exploration'
RULE = ('Hypothesis: directory chain of depth 1..5 with files at every '
        'level, sub-Manifests (plain/gz/bz2/lzma/xz, sometimes a second '
        'Manifest in the same directory) at generated levels, entries in '
        'any covering Manifest, DIST entries; tamper in {change file, add '
        'file+entry, remove file+entry, add DIST entry}; level k: every '
        'Manifest from the k-th link of the chain down to the entry\'s '
        'Manifest is rewritten consistently (harness writer, hashlib), '
        'Manifests above stay untouched. k=0 is the control (everything '
        'consistent: all APIs must succeed with the new data). For k>=1 '
        'assert_directory_verifies (root and every ancestor of the '
        'object), verify_path, assert_path_verifies, find_path_entry and '
        'find_dist_entry must raise ManifestMismatch for the first broken '
        'link and return nothing, on fresh and on warmed-up loaders; '
        'lookups outside the broken sub-tree are unaffected. Non-trivial: '
        'k >= 1 and the broken link is a sub-Manifest below the top whose '
        'bytes really changed; distinct by descriptor hash.')
ASSUMPTIONS = [
    'The attacker model is the one of the property: data and all Manifests '
    'from some level downward are recomputed, at least one Manifest above '
    'is left untouched.',
    'Loaders are created after the tampering (no time-of-check/time-of-use).',
]

NAMES = ['a', 'b', 'sub', 'foo', 'x y', 'é', 'foo.d', 'ж', 'back\\sl', 'd-1']


@st.composite
def chain_tree(draw):
    depth = draw(st.integers(1, 5))
    nodes = []
    cur = ''
    dirs = ['']
    for _ in range(depth):
        n = draw(st.sampled_from(NAMES))
        cur = n if cur == '' else cur + '/' + n
        nodes.append({'p': cur, 't': 'd'})
        dirs.append(cur)
    k = 0
    for d in dirs:
        for _ in range(draw(st.integers(1, 2))):
            k += 1
            p = (d + '/' if d else '') + f'f{k}' + draw(
                st.sampled_from(['', '.txt', ' x']))
            nodes.append({'p': p, 't': 'f', 'm': BASE_MTIME,
                          'c': draw(st.text(alphabet='abc\n', min_size=0,
                                            max_size=6)) + str(k)})
    # an unrelated side directory (for the non-interference lookups)
    nodes.append({'p': 'side', 't': 'd'})
    nodes.append({'p': 'side/s1', 't': 'f', 'm': BASE_MTIME, 'c': 'side'})
    return {'nodes': nodes}, dirs


@st.composite
def case(draw):
    spec, dirs = draw(chain_tree())
    lay = draw(layout.layout(spec, duplicates=False, ignores=False,
                             lies=False, timestamp=False, dist=True,
                             sub_prob=(3, 4), second_prob=(1, 3)))
    manifests = lay['manifests']
    # sometimes the parent records a sub-Manifest with a hash this hashlib
    # cannot compute: such a link can never be accepted
    unsupported = [h for h in R.HASHLIB_NAME if h not in R.USABLE_HASHES]
    weak = None
    if unsupported and len(manifests) > 1 and draw(st.integers(0, 5)) == 0:
        weak = draw(st.integers(1, len(manifests) - 1))
        manifests[weak]['mhash'] = [unsupported[0]]
    before = layout.render(lay)
    # pick the target entry
    cands = [(mi, e) for mi, m in enumerate(manifests) for e in m['entries']
             if e['tag'] in ('DATA', 'MISC', 'EBUILD', 'AUX')
             and not e['path'].startswith('side/')]
    if weak is not None:
        # aim below the weak link
        def below(i):
            while i is not None:
                if i == weak:
                    return True
                i = manifests[i]['parent']
            return False
        wc = [c for c in cands if below(c[0])]
        if wc:
            cands = wc
    deep = [c for c in cands if manifests[c[0]]['parent'] is not None]
    if deep and draw(st.integers(0, 4)) != 0:
        cands = deep
    mi, e = draw(st.sampled_from(cands))
    kind = draw(st.sampled_from(['change', 'change', 'add', 'remove',
                                 'dist']))
    after_lay = copy.deepcopy(lay)
    am = after_lay['manifests'][mi]
    ae = [x for x in am['entries'] if x['tag'] == e['tag']
          and x['path'] == e['path']][0]
    ops = []
    x = e['path']
    dist_name = 'evil-1.0.tar.gz'
    if kind == 'change':
        new = 'tampered ' + draw(st.text(alphabet='xyz', max_size=4))
        if draw(st.booleans()):
            # keep the size
            old = [n for n in spec['nodes'] if n['p'] == x][0]['c']
            new = ('T' * len(old.encode('utf8')))
            if new == old:
                new = 'U' * len(new)
        ops.append({'op': 'write', 'p': x, 'c': new, 'm': BASE_MTIME})
        data = new.encode('utf8')
        ae['size'] = len(data)
        ae['ck'] = R.digests(data, sorted(ae['ck']))
    elif kind == 'add':
        x = (layout.dirname(e['path']) + '/' if '/' in e['path'] else '') \
            + 'added file'
        data = b'injected\n'
        ops.append({'op': 'add', 'p': x, 'c': 'injected\n', 'm': BASE_MTIME})
        am['entries'].append({'tag': 'DATA', 'path': x, 'size': len(data),
                              'ck': R.digests(data, ['SHA256'])})
    elif kind == 'remove':
        ops.append({'op': 'delete', 'p': x})
        am['entries'].remove(ae)
    else:
        am['entries'].append({'tag': 'DIST', 'path': dist_name, 'size': 7,
                              'ck': {'SHA512': 'cd' * 64}})
    after = layout.render(after_lay)
    bmap = {m['p']: m for m in before}
    amap = {m['p']: m for m in after}
    # chain from the top to the entry's Manifest
    chain = []
    i = mi
    while i is not None:
        chain.append(manifests[i]['p'])
        i = manifests[i]['parent']
    chain.reverse()                       # chain[0] == 'Manifest'
    if len(chain) > 1 and draw(st.integers(0, 4)) != 0:
        k = draw(st.integers(1, len(chain) - 1))
    else:
        k = 0
    if weak is not None and manifests[weak]['p'] in chain[1:]:
        k = chain.index(manifests[weak]['p'])
    rewritten = [amap[p] for p in chain[k:]]
    really_changed = amap[chain[k]]['text'] != bmap[chain[k]]['text']
    return {'tree': spec, 'manifests': before, 'ops': ops,
            'rewritten': rewritten, 'chain': chain, 'k': k, 'kind': kind,
            'x': x, 'edir': manifests[mi]['dir'], 'dist': dist_name,
            'changed': really_changed, 'tags': lay['tags'],
            'weak': manifests[weak]['p'] if weak is not None else None,
            'warm': draw(st.sampled_from([False, True, 'update-mode',
                                          'update-mode'])),
            # how the querying loader is configured (none of this may
            # weaken the chain check)
            'loader': draw(st.sampled_from(
                [None, None, {'hashes': ['SHA1']},
                 {'hashes': ['BLAKE2B', 'SHA512']}, {'hashes': ['MD5']},
                 {'profile': 'ebuild'}, {'profile': 'old-ebuild'},
                 {'sort': True, 'compress_watermark': 0},
                 {'max_jobs': 1}, {'max_jobs': 2}]))}


def strat(tier):
    return case()


def ekey(e):
    if e is None:
        return None
    return (e.tag, e.path, getattr(e, 'size', None),
            tuple(sorted(getattr(e, 'checksums', {}).items())))


def refverify_prefix(prefix, path):
    return prefix == '' or path == prefix or path.startswith(prefix + '/')


def ancestors_of(path):
    parts = path.split('/')[:-1]
    return [''] + ['/'.join(parts[:i]) for i in range(1, len(parts) + 1)]


def keep_going(err):
    """Failure handler that reports failure and goes on."""
    return False


def api_calls(desc):
    x = desc['x']
    calls = []
    for p in ancestors_of(x):
        calls.append(('assert_directory_verifies', (p,)))
    # keep-going mode: a broken link is still a failure
    calls.append(('assert_directory_verifies',
                  (layout.dirname(x), keep_going)))
    # ... also when told that nothing older than the far future changed
    calls.append(('assert_directory_verifies',
                  ('', gem.throw, 4_000_000_000)))
    calls.append(('verify_path', (x,)))
    calls.append(('assert_path_verifies', (x,)))
    calls.append(('find_path_entry', (x,)))
    calls.append(('find_dist_entry', (desc['dist'], desc['edir'])))
    calls.append(('find_dist_entry', (desc['dist'],
                                      layout.dirname(x))))
    return calls


def run_case(desc):
    root = harness.fresh_dir('c02')
    try:
        treegen.materialize(desc['tree'], root)
        layout.write_manifests(desc['manifests'], root)
        # baseline answers for the unrelated path, before tampering
        y = 'side/s1'
        m0 = gem.loader(root)
        if desc.get('weak'):
            base_entry = base_verify = None
        else:
            base_entry = ekey(m0.find_path_entry(y))
            base_verify = m0.verify_path(y)
        sane = gem.verify_lib(root)
        weak = desc.get('weak')
        if weak:
            pass    # cannot verify at all: an unsupported hash is recorded
        elif sane.kind != 'return' or sane.value is not True:
            return violation(
                f'consistent chain layout does not verify: {sane.describe()}',
                sig='baseline-does-not-verify')
        import mutate
        mutate.apply_ops(root, desc['ops'])
        layout.write_manifests(desc['rewritten'], root)
        k = desc['k']
        chain = desc['chain']
        classes = ['kind:' + desc['kind'], f'k:{k}', f'depth:{len(chain) - 1}',
                   f'warm:{desc["warm"]}']
        fmt = R.compression_of(chain[k]) or 'plain'
        classes.append('broken-fmt:' + fmt)
        B = chain[k]
        lk = dict(desc.get('loader') or {})
        if 'profile' in lk:
            from gemato.profile import get_profile_by_name
            lk['profile'] = get_profile_by_name(lk['profile'])
        if lk:
            classes.append('loader:' + ','.join(sorted(desc['loader'])))
        for name, args in api_calls(desc):
            m = gem.loader(root, **lk)
            if desc['warm']:
                # a loader that already served other lookups
                # (it may itself run into the broken link)
                gem.call(m.find_path_entry, y)
                gem.call(m.find_dist_entry, 'nothing-like-this')
            # (only if no Manifest of the tampered chain covers that
            # directory: such a Manifest would be loaded unchecked by design)
            if desc['warm'] == 'update-mode' and all(
                    layout.dirname(p) != '' for p in chain[1:]) and (
                    not weak or layout.dirname(weak) != ''):
                # ... including update-mode calls (which load Manifests
                # without checking them) for an unrelated directory
                gem.call(m.get_file_entry_dict, 'side', None, False)
                gem.call(m.update_entries_for_directory, 'side', ['MD5'])
            oc = gem.call(getattr(m, name), *args)
            what = f'{name}{args!r} (tamper {desc["kind"]}, k={k}, B={B!r})'
            if weak:
                # a link recorded only with a hash that cannot be computed:
                # whatever was tampered, nothing beneath it may be used
                if weak in chain and oc.kind == 'return' and (
                        name != 'assert_directory_verifies'
                        or refverify_prefix(layout.dirname(weak), args[0])
                        or refverify_prefix(args[0], layout.dirname(weak))) \
                        and len(args) == 1:
                    val = oc.value
                    if name in ('find_path_entry', 'find_dist_entry'):
                        val = ekey(val)
                    return violation(
                        f'{what} returned {val!r} although {weak!r} is '
                        f'recorded only with an unsupported hash and cannot '
                        f'be checked', sig='unverifiable-link-accepted:'
                        + name, classes=classes + ['weak-link'])
                continue
            if k == 0:
                # control: everything is consistent again
                if oc.kind != 'return':
                    return violation(
                        f'control: {what} failed: {oc.describe()}',
                        sig='control-failed:' + name, classes=classes)
                if name == 'assert_directory_verifies' and oc.value is not True:
                    return violation(f'control: {what} returned {oc.value!r}',
                                     sig='control-failed:' + name,
                                     classes=classes)
                if name == 'verify_path' and oc.value[0] is not True:
                    return violation(f'control: {what} returned {oc.value!r}',
                                     sig='control-failed:' + name,
                                     classes=classes)
                if name == 'find_dist_entry' and desc['kind'] == 'dist' \
                        and args[1] == desc['edir'] and oc.value is None:
                    return violation(
                        f'control: {what} does not find the new DIST entry',
                        sig='control-failed:' + name, classes=classes)
                if name == 'find_path_entry':
                    if desc['kind'] == 'remove' and oc.value is not None:
                        return violation(
                            f'control: {what} still returns {ekey(oc.value)}',
                            sig='control-failed:' + name, classes=classes)
                    if desc['kind'] in ('change', 'add') and oc.value is None:
                        return violation(
                            f'control: {what} returned None',
                            sig='control-failed:' + name, classes=classes)
                continue
            if not desc['changed']:
                continue
            if (oc.kind == 'return' and oc.value is False
                    and len(args) >= 2 and args[1] is keep_going):
                continue        # keep-going: failure reported by the result
            if oc.kind == 'return':
                val = oc.value
                if name == 'find_path_entry':
                    val = ekey(val)
                elif name == 'find_dist_entry':
                    val = ekey(val)
                return violation(
                    f'{what} returned {val!r} although the chain is broken '
                    f'at {B!r} (chain {chain!r})',
                    sig='broken-chain-accepted:' + name, classes=classes)
            if oc.kind != 'mismatch':
                return violation(
                    f'{what}: expected ManifestMismatch for {B!r}, got '
                    f'{oc.describe()}', sig='wrong-exception:' + name,
                    classes=classes)
            if os.path.normpath(oc.path) != B:
                return violation(
                    f'{what}: ManifestMismatch names {oc.path!r}, the first '
                    f'broken link is {B!r}', sig='wrong-link:' + name,
                    classes=classes)
        # non-interference outside the broken sub-tree
        m = gem.loader(root)
        oc1 = gem.call(m.find_path_entry, y)
        oc2 = gem.call(m.verify_path, y)
        if layout.dirname(B) == '' or weak or desc['warm'] == 'update-mode':
            pass        # y lies beneath the broken Manifest's directory
        elif (oc1.kind != 'return' or ekey(oc1.value) != base_entry
                or oc2.kind != 'return' or oc2.value != base_verify):
            return violation(
                f'lookups for unrelated path {y!r} changed after tampering '
                f'below {B!r}: {oc1!r}, {oc2!r}', sig='interference',
                classes=classes)
        nontrivial = k >= 1 and desc['changed']
        return ok(nontrivial=nontrivial, classes=classes)
    finally:
        harness.rmtree(root)


PARTS = [
    Part('chain', run_case, strategy=strat,
         examples={'quick': 12000, 'thorough': 200000},
         budget={'quick': 60, 'thorough': 900}),
]

LEVEL_TEXT = ('Generated Manifest chains with a consistent re-computation '
              'below a chosen level; every API named by the property is '
              'called on every case and must name the first broken link. '
              'Shows absence of violations for the generated cases only.')
LEVEL_NOTE = ('Trusted: the harness\' Manifest writer and hashlib for the '
              're-computation (validated by the k=0 control on every case '
              'shape), Hypothesis.')
TECHNIQUE = ('property-based testing (Hypothesis) with a metamorphic tamper/'
             'recompute relation and a k=0 control')
