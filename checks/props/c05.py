# C05 - A signature is accepted only if good, valid, trusted, unexpired and
#       unrevoked.

import io
import itertools
import os
import stat

from hypothesis import strategies as st

import buckets
import fsnap
import gem
import gpgfix
import harness
from harness import Part, ok, violation, skip

import gemato.openpgp
from gemato.exceptions import (
    GematoException, OpenPGPVerificationFailure, OpenPGPExpiredKeyFailure,
    OpenPGPRevokedKeyFailure, OpenPGPUnknownSigFailure,
    OpenPGPUntrustedSigFailure)
from gemato.manifest import ManifestFile
from gemato.openpgp import SystemGPGEnvironment, IsolatedGPGEnvironment

PROPERTY = 'C05'
LEVEL = 'exploration'
RULE = ('(status) every sequence of length 0..4 (quick) / 0..5 (thorough) '
        'of backend status lines over gpg\'s vocabulary (20 tokens: NEWSIG '
        'GOODSIG BADSIG ERRSIG EXPSIG EXPKEYSIG REVKEYSIG VALIDSIG TRUST_* '
        'KEYEXPIRED KEYREVOKED SIG_ID KEY_CONSIDERED NO_PUBKEY NODATA, a '
        'non-status line) x exit status {0,1,2}, fed through a scripted '
        'backend to verify_file and to ManifestFile.load; a sample also '
        'through a real stub executable. Oracle: order-independent '
        'acceptance predicate of the property; the raised class must be one '
        'of the failures that apply. (keys) real gpg: key state {valid, '
        'expired, revoked, not imported, other key imported, signing subkey, '
        'subkey with stripped binding} x owner-trust {none, undefined, '
        'never, marginal, full, ultimate, import_key(trust=True)}; accept '
        'iff usable key and validity >= marginal. (bytes) every sampled '
        'byte position of the signed body x replacement bytes: if the '
        'canonical text changed, verification must fail. (cli) {good, '
        'tampered, other-signer, unsigned} x -s x -P x {-K signer, -K other, '
        'user keyring} with user GNUPGHOME {empty, signer ultimate, others}; '
        'expected exit status; user home untouched when -K is given. '
        'Non-trivial: status sequence contains GOODSIG or VALIDSIG; every '
        'real-gpg case. Distinct: sequences by construction; other parts by '
        'descriptor hash.')
ASSUMPTIONS = [
    'KEYEXPIRED/KEYREVOKED without EXPKEYSIG/REVKEYSIG (informational '
    'lines) make the verdict DONT-CARE.',
    'Key refresh (WKD/keyserver) needs a network and is not exercised; -R '
    'is always passed.',
    'gpg 2.2 with trust-model direct maps owner-trust 2..6 to TRUST_UNDEFINED'
    '..TRUST_ULTIMATE.',
]

FPR = 'A' * 40
VALIDSIG = (f'VALIDSIG {FPR} 2020-01-01 1577836800 0 4 0 22 8 01 {FPR}')
TOKENS = ['NEWSIG', 'GOODSIG 0123456789ABCDEF Some One <a@b>',
          'BADSIG 0123456789ABCDEF Some One', 'ERRSIG 0123456789ABCDEF 22 8 '
          '01 1577836800 9 -', 'EXPSIG 0123456789ABCDEF Some One',
          'EXPKEYSIG 0123456789ABCDEF Some One',
          'REVKEYSIG 0123456789ABCDEF Some One', VALIDSIG,
          'TRUST_UNDEFINED 0 pgp', 'TRUST_NEVER 0 pgp',
          'TRUST_MARGINAL 0 pgp', 'TRUST_FULLY 0 pgp', 'TRUST_ULTIMATE 0 pgp',
          'KEYEXPIRED 1293840000', 'KEYREVOKED',
          'SIG_ID abc 2020-01-01 1577836800', f'KEY_CONSIDERED {FPR} 0',
          'NO_PUBKEY 0123456789ABCDEF', 'NODATA 1', '#noise',
          # user IDs are printed unescaped above 0x7f: a UID carrying a
          # Unicode line separator followed by a forged status line is still
          # ONE status line
          'GOODSIG 0123456789ABCDEF Evil\u2028[GNUPG:] TRUST_ULTIMATE 0 pgp',
          'GOODSIG 0123456789ABCDEF Evil\u0085[GNUPG:] VALIDSIG ' + FPR
          + ' 2020-01-01 1577836800 0 4 0 22 8 01 ' + FPR]
SHORT = [t.split()[0] for t in TOKENS]


class FakePopen:
    script = (b'', b'', 0)
    calls = 0

    def __init__(self, argv, stdin=None, stdout=None, stderr=None, env=None,
                 **kw):
        FakePopen.calls += 1
        self.argv = argv
        self.returncode = None

    def communicate(self, data=None):
        out, err, rc = FakePopen.script
        self.returncode = rc
        return out, err

    def wait(self):
        self.returncode = FakePopen.script[2]
        return self.returncode


class FakeSubprocess:
    PIPE = -1
    Popen = FakePopen


def status_bytes(idx):
    lines = []
    for i in idx:
        t = TOKENS[i]
        lines.append('gpg: some noise' if t == '#noise' else '[GNUPG:] ' + t)
    return ('\n'.join(lines) + ('\n' if lines else '')).encode('utf8')


def applicable(idx, rc):
    kws = {SHORT[i] for i in idx}
    fails = set()
    if rc != 0:
        fails.add(OpenPGPVerificationFailure)
    if 'EXPKEYSIG' in kws:
        fails.add(OpenPGPExpiredKeyFailure)
    if 'REVKEYSIG' in kws:
        fails.add(OpenPGPRevokedKeyFailure)
    if 'GOODSIG' not in kws or 'VALIDSIG' not in kws:
        fails.add(OpenPGPUnknownSigFailure)
    if not kws & {'TRUST_MARGINAL', 'TRUST_FULLY', 'TRUST_ULTIMATE'}:
        fails.add(OpenPGPUntrustedSigFailure)
    dontcare = (not fails) and bool(kws & {'KEYEXPIRED', 'KEYREVOKED'})
    return fails, dontcare


SIGNED_TEXT = ('-----BEGIN PGP SIGNED MESSAGE-----\nHash: SHA256\n\n'
               'DATA a 0\n-----BEGIN PGP SIGNATURE-----\n\nabc\n'
               '-----END PGP SIGNATURE-----\n')


def enum_status(tier, shard, nshards):
    maxlen = 4 if tier == 'quick' else 5
    i = 0
    for n in range(0, maxlen + 1):
        for seq in itertools.product(range(len(TOKENS)), repeat=n):
            if i % nshards == shard:
                yield {'seq': list(seq)}
            i += 1


def judge_status(idx, rc, call, what):
    fails, dontcare = applicable(idx, rc)
    try:
        val = call()
        outcome = 'accept'
    except GematoException as e:
        outcome = type(e)
    except Exception as e:
        return violation(f'{what}: unexpected exception\n'
                         + buckets.describe(e),
                         sig='exc:' + buckets.signature(e)), None
    if dontcare:
        return None, outcome
    if outcome == 'accept':
        if fails:
            return violation(
                f'{what}: accepted although '
                f'{sorted(f.__name__ for f in fails)} apply',
                sig='accepted:' + '+'.join(sorted(
                    f.__name__.replace('OpenPGP', '') for f in fails))), None
        return None, val
    if not fails:
        return violation(
            f'{what}: a good, valid, trusted signature was rejected with '
            f'{outcome.__name__}', sig='rejected-good'), None
    if outcome not in fails:
        return violation(
            f'{what}: raised {outcome.__name__}, applicable failures are '
            f'{sorted(f.__name__ for f in fails)}',
            sig='wrong-failure-class'), None
    return None, outcome


def run_status(desc):
    idx = desc['seq']
    real = gemato.openpgp.subprocess
    gemato.openpgp.subprocess = FakeSubprocess
    try:
        for rc in (0, 1, 2):
            FakePopen.script = (status_bytes(idx), b'stderr text', rc)
            what = (f'status {[SHORT[i] for i in idx]} exit {rc}')
            env = SystemGPGEnvironment()
            before = FakePopen.calls
            v, res = judge_status(
                idx, rc, lambda: env.verify_file(io.StringIO(SIGNED_TEXT)),
                what + ' verify_file')
            if FakePopen.calls == before:
                return skip('fake-backend-not-reached')
            if v is not None:
                return v
            if res is not None and not isinstance(res, type) and res != \
                    'accept':
                if getattr(res, 'fingerprint', FPR) != FPR:
                    return violation(f'{what}: wrong signature data',
                                     sig='sigdata')
            m = ManifestFile()

            def load():
                m.load(io.StringIO(SIGNED_TEXT), verify_openpgp=True,
                       openpgp_env=env)
                return m.openpgp_signed
            v, res2 = judge_status(idx, rc, load, what + ' Manifest load')
            if v is not None:
                return v
            fails, dontcare = applicable(idx, rc)
            if not dontcare:
                if bool(m.openpgp_signed) != (not fails):
                    return violation(
                        f'{what}: Manifest reports openpgp_signed='
                        f'{m.openpgp_signed}', sig='signed-flag-mismatch')
    finally:
        gemato.openpgp.subprocess = real
    kws = {SHORT[i] for i in idx}
    return ok(nontrivial=bool(kws & {'GOODSIG', 'VALIDSIG'}),
              classes=('accepting' if not applicable(idx, 0)[0] else
                       'rejecting',))


# --- stub executable validation of the fake ----------------------------------

@st.composite
def stub_case(draw):
    return {'seq': draw(st.lists(st.integers(0, len(TOKENS) - 1),
                                 max_size=6)),
            'rc': draw(st.sampled_from([0, 0, 1, 2]))}


def strat_stub(tier):
    return stub_case()


def check_no_backend(text):
    """A signed Manifest loaded with default arguments but without any
    OpenPGP environment: whatever happens, it is not reported as signed."""
    m = ManifestFile()
    try:
        m.load(io.StringIO(text))
        outcome = 'loaded'
    except Exception as e:
        outcome = type(e).__name__
    if m.openpgp_signed or m.openpgp_signature is not None:
        return violation(
            f'ManifestFile.load() without an OpenPGP environment '
            f'({outcome}) reports the Manifest as signed although nothing '
            f'verified the signature: {text[:120]!r}',
            sig='signed-without-backend')
    return None


def run_stub(desc):
    d = harness.fresh_dir('c05s')
    realgpg = gemato.openpgp.GNUPG
    try:
        out = os.path.join(d, 'out')
        with open(out, 'wb') as f:
            f.write(status_bytes(desc['seq']))
        stub = os.path.join(d, 'gpg-stub')
        with open(stub, 'w') as f:
            f.write(f'#!/bin/sh\ncat >/dev/null\ncat "{out}"\n'
                    f'exit {desc["rc"]}\n')
        os.chmod(stub, 0o755)
        gemato.openpgp.GNUPG = stub
        env = SystemGPGEnvironment()
        what = (f'stub gpg printing {[SHORT[i] for i in desc["seq"]]} exit '
                f'{desc["rc"]}')
        v, res = judge_status(
            desc['seq'], desc['rc'],
            lambda: env.verify_file(io.StringIO(SIGNED_TEXT)), what)
        if v is not None:
            return v
        v = check_no_backend(SIGNED_TEXT)
        if v is not None:
            return v
        kws = {SHORT[i] for i in desc['seq']}
        return ok(nontrivial=bool(kws & {'GOODSIG', 'VALIDSIG'}))
    finally:
        gemato.openpgp.GNUPG = realgpg
        harness.rmtree(d)


# --- real gpg: key states x trust --------------------------------------------

_fx = {}
BODY = ('DATA a 12 MD5 d41d8cd98f00b204e9800998ecf8427e\n'
        'DATA b/c\\x20d 0 SHA1 da39a3ee5e6b4b0d3255bfef95601890afd80709\n'
        'IGNORE distfiles  \n'
        'TIMESTAMP 2020-01-01T00:00:00Z\n')


def split_packets(data):
    """Split a binary OpenPGP blob into (tag, raw packet bytes)."""
    out = []
    i = 0
    while i < len(data):
        start = i
        c = data[i]
        i += 1
        if c & 0x40:                       # new format
            tag = c & 0x3F
            l0 = data[i]
            i += 1
            if l0 < 192:
                ln = l0
            elif l0 < 224:
                ln = ((l0 - 192) << 8) + data[i] + 192
                i += 1
            elif l0 == 255:
                ln = int.from_bytes(data[i:i + 4], 'big')
                i += 4
            else:
                raise ValueError('partial length')
        else:
            tag = (c >> 2) & 0xF
            lt = c & 3
            nb = (1, 2, 4)[lt]
            ln = int.from_bytes(data[i:i + nb], 'big')
            i += nb
        i += ln
        out.append((tag, data[start:i]))
    return out


def fixtures():
    if _fx:
        return _fx
    if not gpgfix.have_gpg():
        return None
    fx = {}
    # valid signer
    h = gpgfix.GpgHome()
    fpr = h.gen_key('Valid <valid@example.com>')
    fx['valid'] = dict(home=h, fpr=fpr, pub=h.export(fpr),
                       signed=h.clearsign(BODY))
    # other key
    h2 = gpgfix.GpgHome()
    f2 = h2.gen_key('Other <other@example.com>')
    fx['other'] = dict(home=h2, fpr=f2, pub=h2.export(f2),
                       signed=h2.clearsign(BODY))
    # expired
    h3 = gpgfix.GpgHome()
    f3 = h3.gen_key('Expired <exp@example.com>', expire='1y',
                    faked_time='20100101T000000')
    fx['expired'] = dict(
        home=h3, fpr=f3, pub=h3.export(f3),
        signed=h3.clearsign(BODY, extra=['--faked-system-time',
                                         '20100601T000000']))
    # revoked
    h4 = gpgfix.GpgHome()
    f4 = h4.gen_key('Revoked <rev@example.com>')
    signed4 = h4.clearsign(BODY)
    pub4_before = h4.export(f4)
    h4.revoke(f4)
    fx['revoked'] = dict(home=h4, fpr=f4, pub=h4.export(f4), signed=signed4,
                         pub_before=pub4_before)
    # primary (certify only) + signing subkey
    h5 = gpgfix.GpgHome()
    f5 = h5.gen_key('Sub <sub@example.com>', usage='cert')
    h5.add_subkey(f5)
    pub5 = h5.export(f5)
    fx['subkey'] = dict(home=h5, fpr=f5, pub=pub5, signed=h5.clearsign(BODY))
    # same, binding signature of the subkey removed
    pk = split_packets(pub5)
    stripped = b''
    seen_sub = False
    for tag, raw in pk:
        if tag == 14:
            seen_sub = True
        elif seen_sub and tag == 2:
            continue
        stripped += raw
    fx['nobinding'] = dict(home=h5, fpr=f5, pub=stripped,
                           signed=fx['subkey']['signed'])
    _fx.update(fx)
    return _fx


KEYSTATES = ['valid', 'valid', 'expired', 'revoked', 'notimported',
             'otherkey', 'subkey', 'nobinding', 'revoked-later']
TRUSTS = ['none', 2, 3, 4, 5, 6, 'import-trust']


@st.composite
def keys_case(draw):
    return {'state': draw(st.sampled_from(KEYSTATES)),
            'trust': draw(st.sampled_from(TRUSTS)),
            'via': draw(st.sampled_from(['verify_file', 'load'])),
            # another, unrelated key imported as trusted afterwards
            'then_trusted_other': draw(st.integers(0, 2)) == 0}


def strat_keys(tier):
    return keys_case()


def make_env(pub, trust, fpr):
    env = IsolatedGPGEnvironment()
    if pub is not None:
        env.import_key(io.BytesIO(pub), trust=(trust == 'import-trust'))
        if isinstance(trust, int):
            env._spawn_gpg([gemato.openpgp.GNUPG, '--batch',
                            '--import-ownertrust'],
                           f'{fpr}:{trust}:\n'.encode())
    return env


def run_revoked_later(fx, desc):
    """One environment: the key is imported and a signature accepted; then
    the key arrives again, now with its revocation."""
    k = fx['revoked']
    env = None
    classes = ['state:revoked-later', 'via:' + desc['via']]
    try:
        env = make_env(k['pub_before'], 'import-trust', k['fpr'])

        def look():
            if desc['via'] == 'verify_file':
                return env.verify_file(io.StringIO(k['signed']))
            m = ManifestFile()
            m.load(io.StringIO(k['signed']), verify_openpgp=True,
                   openpgp_env=env)
            if not m.openpgp_signed:
                raise AssertionError('loaded but not signed')
            return m.openpgp_signature
        try:
            look()
        except GematoException as e:
            return violation(
                f'signature by a (not yet revoked) trusted key rejected: '
                f'{e!r}', sig='rejected-good:before-revocation',
                classes=classes)
        env.import_key(io.BytesIO(k['pub']), trust=True)
        try:
            look()
        except GematoException as e:
            if type(e).__name__ != 'OpenPGPRevokedKeyFailure':
                return violation(
                    f'after importing the revocation: rejected with '
                    f'{type(e).__name__}, expected OpenPGPRevokedKeyFailure',
                    sig='wrong-failure:revoked-later', classes=classes)
            return ok(nontrivial=True, classes=classes)
        return violation(
            'the same environment accepted the signature again after the '
            'key\'s revocation had been imported into it',
            sig='accepted:revoked-later', classes=classes)
    finally:
        if env is not None:
            env.close()


def run_keys(desc):
    fx = fixtures()
    if fx is None:
        return skip('no-gpg')
    state, trust = desc['state'], desc['trust']
    if state == 'revoked-later':
        return run_revoked_later(fx, desc)
    if state == 'notimported':
        k, pub = fx['valid'], None
    elif state == 'otherkey':
        k, pub = fx['valid'], fx['other']['pub']
    else:
        k = fx[state]
        pub = k['pub']
    fpr = fx['other']['fpr'] if state == 'otherkey' else k['fpr']
    env = None
    try:
        try:
            env = make_env(pub, trust, fpr)
        except GematoException as e:
            # key import itself refused (e.g. stripped binding): fine
            if state == 'nobinding':
                return ok(nontrivial=True, classes=('import-refused',))
            return violation(f'import of {state} key failed: {e}',
                             sig='import-failed:' + state)
        if desc.get('then_trusted_other') and state != 'otherkey':
            env.import_key(io.BytesIO(fx['other']['pub']), trust=True)
        trusted = trust in (4, 5, 6, 'import-trust')
        usable = state in ('valid', 'subkey')
        expect_accept = usable and trusted
        what = f'key state {state}, owner-trust {trust}, via {desc["via"]}'
        if desc.get('then_trusted_other') and state != 'otherkey':
            what += ', then another key imported with trust=True'
        m = ManifestFile()
        if desc['via'] == 'load':
            # the instance already holds a verified, signed Manifest
            if 'prime_env' not in _env_cache:
                _env_cache['prime_env'] = make_env(
                    fx['valid']['pub'], 'import-trust', fx['valid']['fpr'])
            m.load(io.StringIO(fx['valid']['signed']), verify_openpgp=True,
                   openpgp_env=_env_cache['prime_env'])
        try:
            if desc['via'] == 'verify_file':
                sig = env.verify_file(io.StringIO(k['signed']))
            else:
                m.load(io.StringIO(k['signed']), verify_openpgp=True,
                       openpgp_env=env)
                sig = m.openpgp_signature
                if not m.openpgp_signed:
                    return violation(f'{what}: loaded but not signed',
                                     sig='signed-flag-missing')
            outcome = 'accept'
        except GematoException as e:
            outcome = type(e).__name__
            if m.openpgp_signed:
                return violation(
                    f'{what}: verification raised {outcome} but the '
                    f'Manifest reports itself as signed',
                    sig='signed-flag-after-failure')
        except Exception as e:
            return violation(f'{what}: unexpected exception\n'
                             + buckets.describe(e),
                             sig='exc:' + buckets.signature(e))
        classes = ['state:' + state, f'trust:{trust}',
                   'expect:' + ('accept' if expect_accept else 'reject')]
        if desc.get('then_trusted_other') and state != 'otherkey':
            classes.append('second-import-trusted')
        if outcome == 'accept' and not expect_accept:
            return violation(
                f'{what}: signature accepted', sig=f'accepted:{state}:'
                + ('trusted' if trusted else 'untrusted'), classes=classes)
        if outcome != 'accept' and expect_accept:
            return violation(
                f'{what}: good signature by a usable key of sufficient '
                f'validity rejected with {outcome}',
                sig='rejected-good:' + state, classes=classes)
        if outcome != 'accept':
            want = None
            if trust == 3:
                want = None     # gpg exits with an error for "never"
            elif state == 'expired':
                want = 'OpenPGPExpiredKeyFailure'
            elif state == 'revoked':
                want = 'OpenPGPRevokedKeyFailure'
            elif usable and not trusted and trust != 3:
                # (for "never" gpg itself exits with an error)
                want = 'OpenPGPUntrustedSigFailure'
            if want and outcome != want:
                return violation(
                    f'{what}: rejected with {outcome}, expected {want}',
                    sig=f'wrong-failure:{state}', classes=classes)
        elif sig is None or sig.primary_key_fingerprint != k['fpr']:
            return violation(
                f'{what}: accepted with signature data '
                f'{getattr(sig, "primary_key_fingerprint", None)}, signer is '
                f'{k["fpr"]}', sig='wrong-sigdata', classes=classes)
        return ok(nontrivial=True, classes=classes)
    finally:
        if env is not None:
            env.close()


# --- byte mutations of the signed body ---------------------------------------

def body_span(signed):
    b = signed.encode('utf8')
    start = b.index(b'\n\n') + 2
    end = b.index(b'-----BEGIN PGP SIGNATURE-----')
    return b, start, end


def canonical(text):
    """Canonical form of the cleartext of a signed message, or None."""
    try:
        lines = text.split('\n')
        i = lines.index('-----BEGIN PGP SIGNED MESSAGE-----')
        j = i + 1
        while lines[j].strip():
            j += 1
        k = lines.index('-----BEGIN PGP SIGNATURE-----')
    except (ValueError, IndexError):
        return None
    out = []
    for ln in lines[j + 1:k]:
        if ln.startswith('- '):
            ln = ln[2:]
        out.append(ln.rstrip(' \t\r'))
    return out


REPL = [b' ', b'A', b'0', b'\n', b'-', b'\t', b'\r', b'z', b'\\']


@st.composite
def bytes_case(draw):
    return {'pos': draw(st.integers(0, 10 ** 6)),
            'repl': draw(st.integers(0, len(REPL) - 1)),
            'op': draw(st.sampled_from(['replace', 'replace', 'insert',
                                        'delete']))}


def strat_bytes(tier):
    return bytes_case()


_env_cache = {}


def run_bytes(desc):
    fx = fixtures()
    if fx is None:
        return skip('no-gpg')
    k = fx['valid']
    b, start, end = body_span(k['signed'])
    pos = start + desc['pos'] % (end - start)
    r = REPL[desc['repl']]
    if desc['op'] == 'replace':
        mb = b[:pos] + r + b[pos + 1:]
    elif desc['op'] == 'insert':
        mb = b[:pos] + r + b[pos:]
    else:
        mb = b[:pos] + b[pos + 1:]
    if mb == b:
        return ok(classes=('unchanged',))
    mutated = mb.decode('utf8')
    # what gemato's text layer (universal newlines) will present
    presented = mutated.replace('\r\n', '\n').replace('\r', '\n')
    changed = canonical(presented) != canonical(k['signed'])
    if 'env' not in _env_cache:
        _env_cache['env'] = make_env(k['pub'], 'import-trust', k['fpr'])
    env = _env_cache['env']
    d = harness.fresh_dir('c05b')
    try:
        p = os.path.join(d, 'Manifest')
        with open(p, 'wb') as f:
            f.write(mb)
        m = ManifestFile()
        try:
            with open(p, 'r', encoding='utf8') as f:
                m.load(f, verify_openpgp=True, openpgp_env=env)
            outcome = 'accept'
        except GematoException as e:
            outcome = type(e).__name__
        except Exception as e:
            return violation(
                f'byte {pos} {desc["op"]} {r!r}: unexpected exception\n'
                + buckets.describe(e), sig='exc:' + buckets.signature(e))
        classes = ['canonical-changed' if changed else 'canonical-same',
                   'op:' + desc['op']]
        if changed and outcome == 'accept':
            return violation(
                f'signed text changed at byte {pos} ({desc["op"]} {r!r}): '
                f'line now {mutated.splitlines()[mutated[:pos].count(chr(10))]!r}'
                f' but the signature was accepted (signed={m.openpgp_signed})',
                sig='tampered-accepted', classes=classes)
        return ok(nontrivial=changed, classes=classes,
                  dontcare=not changed)
    finally:
        harness.rmtree(d)


# --- CLI matrix ---------------------------------------------------------------

@st.composite
def cli_case(draw):
    return {'manifest': draw(st.sampled_from(['good', 'tampered', 'other',
                                              'unsigned',
                                              'unsigned+signed-sibling'])),
            's': draw(st.booleans()), 'P': draw(st.booleans()),
            'K': draw(st.sampled_from(['signer', 'other', 'none'])),
            'userhome': draw(st.sampled_from(['empty', 'signer-ultimate',
                                              'others'])),
            # `gemato openpgp-verify` over this file and a good one
            'cmd': draw(st.sampled_from(['verify', 'verify',
                                         'openpgp-verify'])),
            'good_first': draw(st.booleans())}


def strat_cli(tier):
    return cli_case()


FILE_BODY = 'DATA data.txt 6 MD5 b1946ac92492d2347c6235b4d2611184\n'


def run_cli(desc):
    fx = fixtures()
    if fx is None:
        return skip('no-gpg')
    d = harness.fresh_dir('c05c')
    user = None
    old_home = os.environ.get('GNUPGHOME')
    try:
        tree = os.path.join(d, 'tree')
        os.mkdir(tree)
        with open(os.path.join(tree, 'data.txt'), 'w') as f:
            f.write('hello\n')
        valid, other = fx['valid'], fx['other']
        if desc['manifest'] == 'good':
            text = valid['home'].clearsign(FILE_BODY)
        elif desc['manifest'] == 'tampered':
            text = valid['home'].clearsign(
                FILE_BODY + 'DATA gone 1 MD5 00\n').replace(
                'DATA gone 1 MD5 00\n', '')
        elif desc['manifest'] == 'other':
            text = other['home'].clearsign(FILE_BODY)
        elif desc['manifest'] == 'unsigned+signed-sibling':
            # an unsigned top-level Manifest that refers to a properly
            # signed Manifest next to it
            import hashlib
            sib = valid['home'].clearsign(FILE_BODY).encode('utf8')
            with open(os.path.join(tree, 'Manifest.files'), 'wb') as f:
                f.write(sib)
            text = (f'MANIFEST Manifest.files {len(sib)} MD5 '
                    f'{hashlib.md5(sib).hexdigest()}\n')
        else:
            text = FILE_BODY
        with open(os.path.join(tree, 'Manifest'), 'w') as f:
            f.write(text)
        # the user's own keyring
        user = gpgfix.GpgHome(parent=d)
        if desc['userhome'] == 'signer-ultimate':
            user.import_keys(valid['pub'])
            user.set_ownertrust(valid['fpr'], 6)
        elif desc['userhome'] == 'others':
            user.import_keys(other['pub'])
            user.set_ownertrust(other['fpr'], 6)
        user.run(['--list-keys'])
        os.environ['GNUPGHOME'] = user.home
        argv = ['verify', '-R']
        if desc['s']:
            argv.append('-s')
        if desc['P']:
            argv.append('-P')
        if desc['K'] != 'none':
            kf = os.path.join(d, 'key.bin')
            with open(kf, 'wb') as f:
                f.write(valid['pub'] if desc['K'] == 'signer'
                        else other['pub'])
            argv += ['-K', kf]

        def user_snapshot():
            snap = fsnap.snapshot(user.home)
            return {p: v for p, v in snap.items() if v[0] == 'f'
                    and not p.endswith('.lock')}
        before = user_snapshot()
        listing_before = user.run(['--list-keys', '--with-colons']).stdout
        before = user_snapshot()
        if desc.get('cmd') == 'openpgp-verify' \
                and desc['manifest'] != 'unsigned+signed-sibling':
            return run_cli_openpgp_verify(desc, d, tree, argv, valid, user,
                                          user_snapshot, listing_before)
        oc, records, _ = gem.cli(argv + [tree])
        after = user_snapshot()
        listing_after = user.run(['--list-keys', '--with-colons']).stdout
        what = f'`gemato {" ".join(argv)}` on a {desc["manifest"]} ' \
               f'Manifest, user keyring: {desc["userhome"]}'
        classes = ['manifest:' + desc['manifest'], 'K:' + desc['K'],
                   'user:' + desc['userhome']]
        if oc.kind not in ('return', 'gemato', 'mismatch'):
            return violation(f'{what}: {oc.describe()}',
                             sig='exc:' + oc.kind, classes=classes)
        rc = oc.value
        # which keys count?
        if desc['K'] == 'signer':
            keys = {'valid'}
        elif desc['K'] == 'other':
            keys = {'other'}
        else:
            keys = {'signer-ultimate': {'valid'}, 'others': {'other'},
                    'empty': set()}[desc['userhome']]
        signer = {'good': 'valid', 'tampered': 'valid', 'other': 'other',
                  'unsigned': None,
                  'unsigned+signed-sibling': None}[desc['manifest']]
        if desc['P']:
            verified = False
            fails = False
        elif signer is None:
            verified = False
            fails = False
        else:
            good = (desc['manifest'] != 'tampered') and signer in keys
            verified = good
            fails = not good
        expect = 1 if (fails or (desc['s'] and not verified)) else 0
        if (desc['manifest'] == 'unsigned+signed-sibling' and not desc['s']
                and not desc['P'] and 'valid' not in keys):
            # whether a signed sub-Manifest must verify is not this check's
            # business; only "-s means the top-level one is signed" is
            return ok(classes=classes, dontcare=True)
        if (rc == 0) != (expect == 0):
            return violation(
                f'{what}: exit status {rc!r}, expected {expect} (keys that '
                f'count: {sorted(keys)}; log '
                f'{[r.getMessage()[:80] for r in gem.error_records(records)]})',
                sig=f'exit-status:{desc["manifest"]}:K={desc["K"]}:'
                    f's={desc["s"]}:P={desc["P"]}:want{expect}',
                classes=classes)
        if listing_before != listing_after:
            return violation(f'{what}: the user\'s keyring changed',
                             sig='user-keyring-changed', classes=classes)
        if desc['K'] != 'none' and before != after:
            diff = sorted(set(before.items()) ^ set(after.items()))
            return violation(
                f'{what}: files in the user\'s GNUPGHOME changed although a '
                f'key file was given: {[p for p, v in diff]}',
                sig='user-home-touched', classes=classes)
        return ok(nontrivial=True, classes=classes)
    finally:
        if old_home is None:
            os.environ.pop('GNUPGHOME', None)
        else:
            os.environ['GNUPGHOME'] = old_home
        if user is not None:
            user.close()
        harness.rmtree(d)


def run_cli_openpgp_verify(desc, d, tree, argv, valid, user, user_snapshot,
                           listing_before):
    """`gemato openpgp-verify [-K key] -R <file> <good file>` (either order):
    exit status 0 iff every file carries an accepted signature."""
    good = os.path.join(d, 'good.asc')
    with open(good, 'w') as f:
        f.write(valid['home'].clearsign('some other text\n'))
    files = [os.path.join(tree, 'Manifest'), good]
    if desc.get('good_first'):
        files.reverse()
    args = ['openpgp-verify'] + [a for a in argv[1:]
                                 if a not in ('-s', '-P')]
    before = user_snapshot()
    oc, records, _ = gem.cli(args + files)
    after = user_snapshot()
    what = (f'`gemato {" ".join(args)} '
            f'{" ".join(os.path.basename(x) for x in files)}` with a '
            f'{desc["manifest"]} first file, user keyring: '
            f'{desc["userhome"]}')
    classes = ['cmd:openpgp-verify', 'manifest:' + desc['manifest'],
               'K:' + desc['K'], 'user:' + desc['userhome']]
    if oc.kind not in ('return', 'gemato'):
        return violation(f'{what}: {oc.describe()}', sig='exc:' + oc.kind,
                         classes=classes)
    if desc['K'] == 'signer':
        keys = {'valid'}
    elif desc['K'] == 'other':
        keys = {'other'}
    else:
        keys = {'signer-ultimate': {'valid'}, 'others': {'other'},
                'empty': set()}[desc['userhome']]
    signer = {'good': 'valid', 'tampered': None, 'other': 'other',
              'unsigned': None}[desc['manifest']]
    all_ok = signer is not None and signer in keys and 'valid' in keys
    rc = oc.value if oc.kind == 'return' else 1
    if (rc == 0) != all_ok:
        return violation(
            f'{what}: exit status {rc!r}, expected '
            f'{"0" if all_ok else "non-zero"} (keys that count: '
            f'{sorted(keys)})',
            sig=f'openpgp-verify-exit:{desc["manifest"]}:K={desc["K"]}:'
                f'want{"0" if all_ok else "1"}', classes=classes)
    if user.run(['--list-keys', '--with-colons']).stdout != listing_before:
        return violation(f'{what}: the user\'s keyring changed',
                         sig='user-keyring-changed', classes=classes)
    if desc['K'] != 'none' and before != after:
        return violation(f'{what}: files in the user\'s GNUPGHOME changed',
                         sig='user-home-touched', classes=classes)
    return ok(nontrivial=True, classes=classes)


def cleanup():
    for k in list(_fx):
        try:
            _fx[k]['home'].close()
        except Exception:
            pass
    for k in ('env', 'prime_env'):
        if k in _env_cache:
            try:
                _env_cache[k].close()
            except Exception:
                pass


worker_cleanup = cleanup

PARTS = [
    Part('status', run_status, enumerate=enum_status, exhaustive=True,
         budget={'quick': 150, 'thorough': 1500}),
    Part('stub', run_stub, strategy=strat_stub,
         examples={'quick': 300, 'thorough': 3000},
         budget={'quick': 30, 'thorough': 200}),
    Part('keys', run_keys, strategy=strat_keys,
         examples={'quick': 800, 'thorough': 8000},
         budget={'quick': 60, 'thorough': 400}),
    Part('bytes', run_bytes, strategy=strat_bytes,
         examples={'quick': 1500, 'thorough': 20000},
         budget={'quick': 60, 'thorough': 400}),
    Part('cli', run_cli, strategy=strat_cli,
         examples={'quick': 500, 'thorough': 4000},
         budget={'quick': 60, 'thorough': 400}),
]

LEVEL_TEXT = ('The acceptance rule is decided exhaustively over all short '
              'status-line sequences and exit statuses with a scripted '
              'backend; key states, trust levels, byte tampering and the CLI '
              'flag matrix are exercised with real gpg.')
LEVEL_NOTE = ('Trusted: gpg 2.2 as the real backend, the scripted backend '
              '(validated through a stub executable on sampled sequences), '
              'the acceptance predicate written from the property text.')
TECHNIQUE = ('bounded-exhaustive enumeration of backend status sequences '
             'against an acceptance predicate; property-based testing with '
             'real gpg keys, trust levels and byte mutations')
