# C14 - A signed tree stays signed; sub-Manifests are never signed.

import io
import os

from hypothesis import strategies as st

import buckets
import fsnap
import gem
import gpgfix
import harness
import layout
import mutate
import refmanifest as R
import refscan
import treegen
import updgen
from harness import Part, ok, violation, skip

from gemato.exceptions import OpenPGPSigningFailure, GematoException
from gemato.manifest import ManifestFile
from gemato.openpgp import SystemGPGEnvironment
from gemato.profile import get_profile_by_name

PROPERTY = 'C14'
LEVEL = 'exploration'
RULE = ('Hypothesis: tree (hostile names) with 0..3 sub-Manifests (any '
        'format); top-level Manifest originally {unsigned, signed by key A, '
        'signed by A but loaded with verification off}; sign option {unset, '
        'on, off}; key id {default, A, B, unknown}; signing GNUPGHOME {secret '
        'keys A+B, public keys only, empty}; 1..3 file edits; library API '
        'and CLI (update -s/-S/-k). Oracle: expected-signed iff sign is on, '
        'or unset and the top-level was loaded with an accepted signature. '
        'If expected-signed with a usable key: the saved top-level is one '
        'cleartext-signed message with nothing outside (own splitter), the '
        'harness\' own gpg --verify accepts it with the expected '
        'fingerprint, gpg --decrypt yields exactly the entries that the '
        'exact-cover scan accepts, gemato reloads it as signed. Expected-'
        'unsigned: no armor line. Every sub-Manifest: no armor line. No '
        'usable key: OpenPGPSigningFailure / exit 1 and no unsigned '
        'Manifest with the new entries is left. Non-trivial: expected-'
        'signed or originally signed; distinct by descriptor hash.')
ASSUMPTIONS = [
    'Signing uses the system gpg through SystemGPGEnvironment with '
    'GNUPGHOME pointing at a scratch home; the first generated secret key '
    'is gpg\'s default key.',
    'A case whose loader cannot even verify the original signature (empty '
    'home) makes no claim.',
]

_fx = {}


def fixtures():
    if _fx:
        return _fx
    if not gpgfix.have_gpg():
        return None
    full = gpgfix.GpgHome()
    a = full.gen_key('Key A <a@example.com>')
    b = full.gen_key('Key B <b@example.com>')
    pubs = full.export()
    pubonly = gpgfix.GpgHome()
    pubonly.import_keys(pubs)
    pubonly.set_ownertrust(a, 6)
    pubonly.set_ownertrust(b, 6)
    empty = gpgfix.GpgHome()
    check = gpgfix.GpgHome()
    check.import_keys(pubs)
    check.set_ownertrust(a, 6)
    check.set_ownertrust(b, 6)
    _fx.update(full=full, pubonly=pubonly, empty=empty, check=check, A=a,
               B=b)
    return _fx


def worker_cleanup():
    for k in ('full', 'pubonly', 'empty', 'check'):
        if k in _fx:
            _fx[k].close()


@st.composite
def case(draw):
    spec = draw(treegen.tree_spec(max_dirs=3, max_files=5, fifos=False,
                                  dangling=False, dir_links=False))
    lay = draw(layout.layout(spec, duplicates=False, lies=False,
                             conflicts=False, sub_prob=(1, 2),
                             under_ignore=False))
    rendered = layout.render(lay)
    state = {'tree': spec, 'mode': 'layout', 'ignores': [],
             'manifests': rendered}
    profile = draw(st.sampled_from([None, None, None, 'ebuild']))
    edits = draw(updgen.edits(state, max_ops=3, min_ops=1))
    if profile:
        # (a stray file named like a Manifest where the profile starts a
        # Manifest of its own is C18's business, not a signing matter)
        edits = [op for op in edits if not os.path.basename(
            op.get('p', '')).startswith('Manifest')] or [
            {'op': 'add', 'p': 'added by the harness', 'c': 'x',
             'm': 1500000000}]
    return {
        'tree': spec, 'manifests': rendered, 'tags': lay['tags'],
        'orig': draw(st.sampled_from(['unsigned', 'signed', 'signed',
                                      'signed-noverify'])),
        'sign': draw(st.sampled_from([None, None, True, False])),
        'keyid': draw(st.sampled_from([None, None, 'A', 'B', 'unknown'])),
        'home': draw(st.sampled_from(['full', 'full', 'full', 'pubonly',
                                      'empty'])),
        'api': draw(st.sampled_from(['lib', 'lib', 'cli'])),
        'edits': edits,
        'hashes': ['SHA256'],
        'force': draw(st.integers(0, 3)) != 0,
        # a sub-Manifest (referenced from the top-level one) that itself
        # carries a valid cleartext signature
        'sub_signed': draw(st.integers(0, 2)) == 0,
        # library API: edit and save a second time with the same loader
        'second_save': draw(st.integers(0, 2)) == 0,
        # the top-level Manifest itself may be stored compressed, and the
        # update may (de)compress it
        # CLI: `gemato create` run again over the existing tree
        'cli_cmd': draw(st.sampled_from(['update', 'update', 'create'])),
        # a profile that sorts: signing wraps the same text
        'profile': profile,
        'top_fmt': draw(st.sampled_from(['', '', '', 'gz', 'xz'])),
        'watermark': draw(st.sampled_from([None, None, 0, 10 ** 6])),
    }


def strat(tier):
    return case()


def has_armor(text):
    return any(ln.startswith('-----') for ln in text.split('\n'))


def sign_a_sub_manifest(root, desc, fx):
    """Replace one sub-Manifest that the top-level Manifest references by a
    cleartext-signed version of itself and fix the reference.  Returns its
    path or None."""
    top = os.path.join(root, 'Manifest')
    with open(top) as f:
        lines = f.read().split('\n')
    for i, ln in enumerate(lines):
        toks = ln.split()
        if len(toks) >= 3 and toks[0] == 'MANIFEST':
            v, rel = R.decode_path_token(toks[1])
            if v != R.ACCEPT:
                continue
            fmt = R.compression_of(rel)
            p = os.path.join(root, rel)
            with open(p, 'rb') as f:
                plain = R.decompress(f.read(), fmt).decode('utf8')
            signed = fx['full'].clearsign(plain, keyid=fx['A'])
            data = R.compress(signed.encode('utf8'), fmt)
            with open(p, 'wb') as f:
                f.write(data)
            names = toks[3::2]
            e = R.Entry('MANIFEST', path=rel, size=len(data),
                        checksums=R.digests(data, names))
            lines[i] = e.to_line()
            with open(top, 'w') as f:
                f.write('\n'.join(lines))
            return rel
    return None


def run_case(desc):
    fx = fixtures()
    if fx is None:
        return skip('no-gpg')
    root = harness.fresh_dir('c14')
    old_home = os.environ.get('GNUPGHOME')
    try:
        treegen.materialize(desc['tree'], root)
        layout.write_manifests(desc['manifests'], root)
        top = os.path.join(root, 'Manifest')
        sub_signed = None
        if desc.get('sub_signed'):
            sub_signed = sign_a_sub_manifest(root, desc, fx)
        orig_signed = desc['orig'] != 'unsigned'
        if orig_signed:
            with open(top) as f:
                plain = f.read()
            with open(top, 'w') as f:
                f.write(fx['full'].clearsign(plain, keyid=fx['A']))
        top_fmt = desc.get('top_fmt') or ''
        if top_fmt:
            with open(top, 'rb') as f:
                data = f.read()
            os.unlink(top)
            top = top + '.' + top_fmt
            with open(top, 'wb') as f:
                f.write(R.compress(data, top_fmt))
        top_names = ['Manifest'] + ['Manifest.' + x
                                    for x in ('gz', 'bz2', 'lzma', 'xz')]

        def find_top():
            found = [n for n in top_names
                     if os.path.exists(os.path.join(root, n))]
            return found
        watermark = desc.get('watermark')
        mutate.apply_ops(root, desc['edits'])
        if find_top() != [os.path.basename(top)]:
            return skip('edits-touched-top-level')
        home = fx[desc['home']]
        os.environ['GNUPGHOME'] = home.home
        st_before = os.stat(top)
        with open(top, 'rb') as f:
            raw_before = f.read()
        snap_before = fsnap.snapshot(root)
        keyid = {None: None, 'A': fx['A'], 'B': fx['B'],
                 'unknown': 'DEADBEEFDEADBEEFDEADBEEFDEADBEEFDEADBEEF'}[
            desc['keyid']]
        verify = desc['orig'] != 'signed-noverify'
        api = desc['api']
        if api == 'cli' and not verify:
            api = 'lib'
        if sub_signed and desc['home'] == 'empty' and verify:
            # the signed sub-Manifest cannot be verified either
            expect_load_failure_sub = True
        else:
            expect_load_failure_sub = False
        classes = ['orig:' + desc['orig'], f'sign:{desc["sign"]}',
                   f'key:{desc["keyid"]}', 'home:' + desc['home'],
                   'api:' + api] + list(desc['tags'])
        # expectation
        loaded_signed = orig_signed and verify and desc['home'] != 'empty'
        if orig_signed and verify and desc['home'] == 'empty':
            expect_load_failure = True
        else:
            expect_load_failure = False
        expect_signed = (desc['sign'] is True
                         or (desc['sign'] is None and loaded_signed))
        can_sign = desc['home'] == 'full' and desc['keyid'] != 'unknown'
        expect_fpr = fx['B'] if desc['keyid'] == 'B' else fx['A']
        if api == 'cli':
            # (`create` always starts a plain "Manifest": with a compressed
            # top-level Manifest it is a different operation, see C18)
            argv = [desc.get('cli_cmd', 'update') if not top_fmt
                    else 'update', '--hashes', ' '.join(desc['hashes'])]
            classes.append('cli:' + argv[0])
            if desc['sign'] is True:
                argv.append('-s')
            elif desc['sign'] is False:
                argv.append('-S')
            if keyid:
                argv += ['-k', keyid]
            if desc['force']:
                argv.append('-f')
            if watermark is not None:
                argv += ['-c', str(watermark)]
            if desc.get('profile'):
                argv += ['-p', desc['profile']]
            oc, records, _ = gem.cli(argv + [root])
            if oc.kind == 'return' and oc.value == 1:
                msgs = [r.msg for r in gem.error_records(records)]
                exc = [m for m in msgs if isinstance(m, GematoException)]
                oc = gem.classify_exception(exc[-1]) if exc else oc
        else:
            def run():
                env = SystemGPGEnvironment()
                m = gem.ManifestRecursiveLoader(
                    top, verify_openpgp=verify, openpgp_env=env,
                    sign_openpgp=desc['sign'], openpgp_keyid=keyid,
                    hashes=desc['hashes'],
                    **({'compress_watermark': watermark}
                       if watermark is not None else {}),
                    **({'profile': get_profile_by_name(desc['profile'])}
                       if desc.get('profile') else {}))
                m.update_entries_for_directory('')
                m.save_manifests(force=desc['force'])
                if desc.get('second_save'):
                    with open(os.path.join(root, 'second-save-file'),
                              'w') as f:
                        f.write('added before the second save\n')
                    m.update_entries_for_directory('')
                    m.save_manifests(force=desc['force'])
                return m
            oc = gem.call(run)
        what = (f'{argv[0] if api == "cli" else "update"}'
                f' via {api}: originally {desc["orig"]}, sign='
                f'{desc["sign"]}, key id {desc["keyid"]}, home '
                f'{desc["home"]}')
        if top_fmt or watermark is not None:
            what += (f', top-level stored as {os.path.basename(top)}, '
                     f'compress watermark {watermark}')
            classes.append('top:' + (top_fmt or 'plain')
                           + f':watermark:{watermark}')
        if sub_signed:
            classes.append('signed-sub-manifest')
        if desc.get('second_save') and api == 'lib':
            classes.append('second-save')
        if expect_load_failure_sub and not expect_load_failure:
            return ok(classes=classes + ['sub-load-failed'])
        if expect_load_failure:
            if oc.kind == 'return' and api == 'lib':
                return violation(
                    f'{what}: signed Manifest loaded although the signer is '
                    f'unknown', sig='unverifiable-loaded', classes=classes)
            return ok(classes=classes + ['load-failed'])
        tops = find_top()
        if len(tops) != 1:
            if oc.kind != 'return':
                return ok(classes=classes + ['failed-no-single-top'])
            return violation(
                f'{what}: after the update the top-level directory holds '
                f'{tops!r}', sig='top-level-name', classes=classes)
        old_top_name = os.path.basename(top)
        top = os.path.join(root, tops[0])
        if tops[0] != old_top_name:
            classes.append('top-renamed')
        with open(top, 'rb') as f:
            raw = f.read()
        st_after = os.stat(top)
        top_saved = (raw != raw_before or tops[0] != old_top_name
                     or st_after.st_mtime_ns != st_before.st_mtime_ns
                     or st_after.st_ino != st_before.st_ino)
        try:
            raw = R.decompress(raw, tops[0].partition('.')[2] or None)
        except Exception as e:
            return violation(f'{what}: {tops[0]} cannot be decompressed: '
                             f'{e!r}', sig='top-level-corrupt',
                             classes=classes)
        try:
            text = raw.decode('utf8')
        except UnicodeDecodeError:
            text = raw.decode('latin-1')
        # sub-Manifests are never written signed
        written = set(fsnap.changed_paths(fsnap.diff(
            snap_before, fsnap.snapshot(root))))
        # whatever happened (also a failed signature): nothing but Manifest
        # files may have been created or changed
        alien = sorted(p for p in written
                       if not os.path.basename(p).startswith('Manifest')
                       and 'manifest' not in os.path.basename(p)
                       and os.path.basename(p) != 'second-save-file')
        if alien:
            return violation(
                f'{what} (outcome {oc!r}) created or changed non-Manifest '
                f'paths {alien}', sig='non-manifest-touched',
                classes=classes)
        for mf in desc['manifests']:
            if mf['p'] == 'Manifest':
                continue
            for suf in R.SUFFIXES:
                relp = R.strip_compression(mf['p']) + suf
                p = os.path.join(root, relp)
                if os.path.exists(p) and relp in written:
                    with open(p, 'rb') as f:
                        sub = R.decompress(f.read(), suf[1:] or None)
                    if has_armor(sub.decode('utf8', 'replace')):
                        return violation(
                            f'{what}: sub-Manifest {mf["p"]} carries OpenPGP '
                            f'armor', sig='sub-manifest-signed',
                            classes=classes)
        nontrivial = expect_signed or orig_signed
        if oc.kind == 'return' and not top_saved:
            # nothing to write: the claim is about a saved top-level Manifest
            return ok(classes=classes + ['top-level-not-saved'])
        if oc.kind in ('gemato', 'mismatch') and not isinstance(
                oc.exc, OpenPGPSigningFailure):
            return ok(classes=classes + ['gemato-exception'])
        if expect_signed and not can_sign:
            if oc.kind == 'return':
                return violation(
                    f'{what}: signing is impossible (no usable secret key) '
                    f'but the update succeeded; top-level now: {text[:200]!r}',
                    sig='signing-failure-not-reported', classes=classes)
            if not isinstance(oc.exc, OpenPGPSigningFailure):
                return violation(
                    f'{what}: expected OpenPGPSigningFailure, got '
                    f'{oc.describe()}', sig='wrong-signing-failure',
                    classes=classes)
            if not has_armor(text):
                try:
                    ents = R.parse_strict(text)
                except ValueError:
                    ents = []
                if ents:
                    return violation(
                        f'{what}: signing failed but an unsigned Manifest '
                        f'with {len(ents)} entries was left behind',
                        sig='silently-unsigned', classes=classes)
            return ok(nontrivial=nontrivial,
                      classes=classes + ['signing-failure'])
        if oc.kind != 'return':
            if oc.kind in ('gemato', 'mismatch') and not isinstance(
                    oc.exc, OpenPGPSigningFailure):
                return ok(classes=classes + ['gemato-exception'])
            return violation(f'{what}: failed: {oc.describe()}',
                             sig='update-failed:' + oc.kind, classes=classes)
        if not top_saved:
            # nothing to write: the claim is about a saved top-level Manifest
            return ok(classes=classes + ['top-level-not-saved'])
        if not expect_signed:
            if has_armor(text):
                return violation(
                    f'{what}: top-level Manifest is signed although signing '
                    f'is {"disabled" if desc["sign"] is False else "not expected"}'
                    f': {text[:120]!r}', sig='unexpectedly-signed',
                    classes=classes)
            sc = refscan.scan(root, tops[0], '', desc['hashes'])
            if sc.problems:
                return violation(f'{what}: {sc.problems[:4]!r}',
                                 sig='scan', classes=classes)
            return ok(nontrivial=nontrivial, classes=classes + ['unsigned'])
        # expected signed, key usable
        try:
            body = R.split_cleartext(text)
        except ValueError as e:
            return violation(
                f'{what}: top-level Manifest is not a single cleartext-'
                f'signed message ({e}): {text[:300]!r}',
                sig='not-signed' if not has_armor(text) else 'bad-framework',
                classes=classes)
        rc, status = fx['check'].verify(text)
        kws = gpgfix.status_keywords(status)
        if rc != 0 or 'GOODSIG' not in kws:
            return violation(
                f'{what}: gpg does not accept the new signature (rc {rc}, '
                f'{kws})', sig='signature-does-not-verify', classes=classes)
        vs = [ln.split() for ln in status.splitlines() if 'VALIDSIG' in ln]
        if not vs or vs[0][-1] != expect_fpr:
            return violation(
                f'{what}: signed by {vs[0][-1] if vs else None}, expected '
                f'key {expect_fpr}', sig='wrong-signing-key', classes=classes)
        if desc.get('profile') == 'ebuild':
            # the profile sorts: the signed text is the sorted text
            ms = ManifestFile()
            ms.load(io.StringIO(body), verify_openpgp=False)
            out = io.StringIO()
            ms.dump(out, sign_openpgp=False, sort=True)
            classes.append('profile:ebuild')
            # (blank lines aside: an empty Manifest is signed as '\n')
            if [ln for ln in out.getvalue().split('\n') if ln] != [
                    ln for ln in body.split('\n') if ln]:
                return violation(
                    f'{what} with the sorting ebuild profile: the signed '
                    f'text {body!r} is not in sorted order '
                    f'({out.getvalue()!r})', sig='signed-not-sorted',
                    classes=classes)
        rc, clear, _ = fx['check'].decrypt(text)
        if clear.decode('utf8') != body:
            return violation(
                f'{what}: authenticated cleartext {clear!r} differs from '
                f'the body in the file {body!r}', sig='cleartext-differs',
                classes=classes)
        sc = refscan.scan(root, tops[0], '', desc['hashes'])
        if sc.problems:
            return violation(
                f'{what}: the signed entries do not describe the tree: '
                f'{sc.problems[:4]!r}', sig='signed-entries-stale',
                classes=classes)
        os.environ['GNUPGHOME'] = fx['check'].home
        m2 = ManifestFile()
        try:
            m2.load(io.StringIO(text), verify_openpgp=True,
                    openpgp_env=SystemGPGEnvironment())
        except Exception as e:
            return violation(f'{what}: gemato cannot reload its own signed '
                             f'Manifest: {e!r}', sig='reload-failed',
                             classes=classes)
        if not m2.openpgp_signed:
            return violation(f'{what}: reloaded Manifest not reported as '
                             f'signed', sig='reload-unsigned',
                             classes=classes)
        return ok(nontrivial=True, classes=classes + ['signed'])
    finally:
        if old_home is None:
            os.environ.pop('GNUPGHOME', None)
        else:
            os.environ['GNUPGHOME'] = old_home
        harness.rmtree(root)


PARTS = [
    Part('signing', run_case, strategy=strat,
         examples={'quick': 8000, 'thorough': 80000},
         budget={'quick': 60, 'thorough': 900}),
]

LEVEL_TEXT = ('Generated option combinations over generated trees with real '
              'gpg signing; the result is checked by an independent gpg '
              'verification, an own cleartext splitter and the exact-cover '
              'scan.')
LEVEL_NOTE = ('Trusted: gpg --verify/--decrypt in a separate check home, '
              'refmanifest.split_cleartext, refscan.')
TECHNIQUE = ('property-based testing (Hypothesis) over sign/key/home '
             'configurations with an independent gpg verification oracle')
