# C20 - The fast generator scripts and the reference implementation agree.

import importlib.util
import os
import subprocess
import sys

from hypothesis import strategies as st

import buckets
import fsnap
import gem
import harness
import refmanifest as R
import refscan
import refverify
import repogen
from harness import Part, ok, violation, skip

PROPERTY = 'C20'
LEVEL = 'exploration'
RULE = ('Hypothesis: C19\'s repository generator restricted to the scripts\' '
        'input domain (portable names, the directories the script opens '
        'unconditionally present, all categories listed, ignored directories '
        'absent, timestamp files only where the profile ignores them, '
        'optional package Manifests carrying DIST and IGNORE-of-absent '
        'lines). (meta) utils/gen_fast_metamanifest.py run as a program on '
        'the whole repository, then 0..5 edits and `gemato update -p '
        'ebuild`; (single) utils/gen_fast_manifest.gen_manifest bottom-up '
        'on a category and its packages. Oracle: `gemato verify` exits 0 '
        'and the reference verifier agrees; exact-cover scan with BLAKE2B+'
        'SHA512, DIST lines preserved; `gemato update -p ebuild` on the '
        'untouched tree rewrites no Manifest (snapshot); after the edits, '
        'update and verify exit 0 and the scan holds. Non-trivial: >= 1 '
        'category with >= 1 package; distinct by descriptor hash.')
ASSUMPTIONS = [
    'The scripts are taken from utils/ of the repository under test and run '
    'with /venv/bin/python.',
    'Inputs outside the scripts\' documented domain (unlisted categories, '
    'IGNORE lines naming existing files, names starting with "Manifest" or '
    '".") are not generated.',
]

HASHES = ['BLAKE2B', 'SHA512']


def load_script():
    path = os.path.join(harness.REPO, 'utils', 'gen_fast_manifest.py')
    spec = importlib.util.spec_from_file_location('gen_fast_manifest_uut',
                                                  path)
    mod = importlib.util.module_from_spec(spec)
    spec.loader.exec_module(mod)
    return mod


@st.composite
def meta_case(draw):
    r = draw(repogen.repo(full_skeleton=True, ignored_dirs=False))
    dist = {}
    for p in sorted({os.path.dirname(f) for f in r['files']
                     if f.endswith('.ebuild') and f.count('/') == 2}):
        if draw(st.integers(0, 2)) == 0:
            lines = [f'DIST {os.path.basename(p)}-{i}.tar.gz {100 + i} '
                     f'BLAKE2B {"ab" * 64} SHA512 {"cd" * 64}'
                     for i in range(draw(st.integers(1, 2)))]
            if draw(st.booleans()):
                lines.append('IGNORE no-such-file')
            dist[p] = '\n'.join(lines) + '\n'
    edits = draw(repogen.repo_edits(r, max_ops=5))
    pkgs = sorted({os.path.dirname(f) for f in r['files']
                   if f.count('/') == 2
                   and f.split('/')[0] in repogen.CATS})
    broken = None
    if pkgs and draw(st.integers(0, 7)) == 0:
        # an object that cannot be read (dangling symlink) in a package
        broken = draw(st.sampled_from(pkgs)) + draw(st.sampled_from(
            ['/files/broken-link', '/broken-link']))
    return {'repo': r, 'dist': dist, 'edits': edits,
            # the generator is run again over its own output
            'rerun': draw(st.booleans()), 'broken': broken}


def strat_meta(tier):
    return meta_case()


def dist_lines(root, top='Manifest'):
    out = []
    sc = refscan.load_all(root, top)
    for mp, entries in sc.manifests.items():
        for e in entries:
            if e.tag == 'DIST':
                out.append((refscan.dirname(mp), e.to_line()))
    return sorted(out)


def check_generated(root, top, what, classes, expect_dist=None):
    sc = refscan.scan(root, top, '', HASHES)
    if sc.problems:
        return violation(
            f'{what}: Manifests do not describe the repository: '
            f'{sc.problems[:5]!r}',
            sig='scan:' + '+'.join(sorted({k for k, p, t in sc.problems})),
            classes=classes)
    model = refverify.evaluate(root, top, '')
    if (model.chain_broken or model.unparsable or model.incompatible
            or model.offending):
        return violation(f'{what}: reference verifier: {model.summary()!r}',
                         sig='reference-verify', classes=classes)
    if expect_dist is not None:
        got = dist_lines(root, top)
        if got != expect_dist:
            return violation(
                f'{what}: DIST lines {got} differ from the pre-existing '
                f'{expect_dist}', sig='dist-lost', classes=classes)
    return None


def run_meta(desc):
    root = harness.fresh_dir('c20')
    try:
        repogen.materialize(desc['repo'], root)
        for p, text in desc['dist'].items():
            with open(os.path.join(root, p, 'Manifest'), 'w') as f:
                f.write(text)
        expect_dist = sorted(
            (p, ln) for p, text in desc['dist'].items()
            for ln in text.splitlines() if ln.startswith('DIST'))
        classes = []
        script = os.path.join(harness.REPO, 'utils',
                              'gen_fast_metamanifest.py')
        if desc.get('broken'):
            os.makedirs(os.path.dirname(os.path.join(root, desc['broken'])),
                        exist_ok=True)
            os.symlink('no-such-target', os.path.join(root, desc['broken']))
            p = subprocess.run([sys.executable, script, root],
                               capture_output=True, text=True)
            classes.append('unreadable-object')
            if p.returncode != 0:
                # the failure is reported: nothing more is claimed
                return ok(nontrivial=True,
                          classes=classes + ['generator-reported-failure'])
            oc, records, _ = gem.cli(['verify', root])
            if oc.kind != 'return' or oc.value != 0:
                return violation(
                    f'gen_fast_metamanifest.py exited 0 on a tree with the '
                    f'dangling symlink {desc["broken"]!r} but its output '
                    f'does not verify: {oc.describe()} '
                    f'{[r.getMessage()[:200] for r in gem.error_records(records)]}',
                    sig='failure-not-reported', classes=classes)
            return ok(nontrivial=True,
                      classes=classes + ['generator-coped'])
        p = subprocess.run([sys.executable, script, root],
                           capture_output=True, text=True)
        if p.returncode != 0:
            return violation(
                f'gen_fast_metamanifest.py failed (rc {p.returncode}): '
                f'{p.stderr[-1500:]}', sig='script-failed', classes=classes)
        what = 'gen_fast_metamanifest.py output'
        oc, records, _ = gem.cli(['verify', root])
        if oc.kind != 'return' or oc.value != 0:
            return violation(
                f'{what}: `gemato verify` fails: {oc.describe()} '
                f'{[r.getMessage()[:200] for r in gem.error_records(records)]}',
                sig='verify-generated:' + oc.kind, classes=classes)
        v = check_generated(root, 'Manifest', what, classes, expect_dist)
        if v is not None:
            return v
        if desc.get('rerun'):
            p = subprocess.run([sys.executable, script, root],
                               capture_output=True, text=True)
            if p.returncode != 0:
                return violation(
                    f'second run of gen_fast_metamanifest.py over its own '
                    f'output failed (rc {p.returncode}): {p.stderr[-1500:]}',
                    sig='script-failed:second-run', classes=classes)
            what = 'output of a second gen_fast_metamanifest.py run'
            oc, records, _ = gem.cli(['verify', root])
            if oc.kind != 'return' or oc.value != 0:
                return violation(
                    f'{what}: `gemato verify` fails: {oc.describe()} '
                    f'{[r.getMessage()[:200] for r in gem.error_records(records)]}',
                    sig='verify-generated:second-run:' + oc.kind,
                    classes=classes)
            v = check_generated(root, 'Manifest', what, classes, expect_dist)
            if v is not None:
                return v
            classes.append('second-run')
        before = fsnap.snapshot(root)
        oc, records, _ = gem.cli(['update', '-p', 'ebuild', root])
        if oc.kind != 'return' or oc.value != 0:
            return violation(
                f'`gemato update -p ebuild` on the untouched generated tree '
                f'fails: {oc.describe()} '
                f'{[r.getMessage()[:200] for r in gem.error_records(records)]}',
                sig='update-untouched-failed:' + (
                    buckets.signature(oc.exc) if oc.exc else 'exit'),
                classes=classes)
        d = fsnap.diff(before, fsnap.snapshot(root))
        if not fsnap.is_empty(d):
            return violation(
                f'`gemato update -p ebuild` finds something to change on '
                f'the untouched generated tree: {d!r}',
                sig='update-untouched-rewrites', classes=classes)
        if desc['edits']:
            repogen.apply_edits(root, desc['edits'])
            oc, records, _ = gem.cli(['update', '-p', 'ebuild', root])
            what = f'`gemato update -p ebuild` after {desc["edits"]!r}'
            if oc.kind != 'return' or oc.value != 0:
                return violation(
                    f'{what} fails: {oc.describe()} '
                    f'{[r.getMessage()[:200] for r in gem.error_records(records)]}',
                    sig='update-after-edits-failed:' + (
                        buckets.signature(oc.exc) if oc.exc else 'exit'),
                    classes=classes)
            oc, records, _ = gem.cli(['verify', root])
            if oc.kind != 'return' or oc.value != 0:
                return violation(
                    f'{what}: `gemato verify` fails: {oc.describe()} '
                    f'{[r.getMessage()[:200] for r in gem.error_records(records)]}',
                    sig='verify-after-update:' + oc.kind, classes=classes)
            v = check_generated(root, 'Manifest', what, classes)
            if v is not None:
                return v
            classes.append('edited')
        files = desc['repo']['files']
        has_pkg = any(p.endswith('.ebuild') and p.count('/') == 2
                      for p in files)
        if desc['dist']:
            classes.append('dist')
        return ok(nontrivial=has_pkg, classes=classes)
    finally:
        harness.rmtree(root)


# --- gen_fast_manifest on single directories ---------------------------------

@st.composite
def single_case(draw):
    r = draw(repogen.repo(full_skeleton=True, ignored_dirs=False,
                          timestamps=False, max_cats=1))
    cat = sorted({p.split('/')[0] for p in r['files']
                  if p.split('/')[0] in repogen.CATS})
    return {'repo': r, 'cat': cat[0] if cat else None,
            'dist': draw(st.booleans())}


def strat_single(tier):
    return single_case()


def run_single(desc):
    if desc['cat'] is None:
        return skip('no-category')
    root = harness.fresh_dir('c20s')
    try:
        repogen.materialize(desc['repo'], root)
        gfm = load_script()
        cat = os.path.join(root, desc['cat'])
        if not os.path.isdir(cat):
            return skip('no-category')
        classes = []
        pkgs = sorted(d for d in os.listdir(cat)
                      if os.path.isdir(os.path.join(cat, d)))
        expect_dist = []
        for p in pkgs:
            pd = os.path.join(cat, p)
            if desc['dist'] and any(f.endswith('.ebuild')
                                    for f in os.listdir(pd)):
                ln = f'DIST {p}-1.tar.gz 5 BLAKE2B {"ab" * 64} SHA512 ' \
                     f'{"cd" * 64}'
                with open(os.path.join(pd, 'Manifest'), 'w') as f:
                    f.write(ln + '\n')
                expect_dist.append((p, ln))
            try:
                gfm.gen_manifest(pd)
            except Exception as e:
                return violation(
                    f'gen_manifest({p}) raised\n' + buckets.describe(e),
                    sig='script-failed:' + type(e).__name__, classes=classes)
        try:
            gfm.gen_manifest(cat)
        except Exception as e:
            return violation(f'gen_manifest(category) raised\n'
                             + buckets.describe(e),
                             sig='script-failed:' + type(e).__name__,
                             classes=classes)
        tops = [n for n in ('Manifest', 'Manifest.gz')
                if os.path.exists(os.path.join(cat, n))]
        if len(tops) != 1:
            return violation(f'category directory holds {tops}',
                             sig='manifest-variants', classes=classes)
        top = tops[0]
        oc = gem.call(lambda: gem.ManifestRecursiveLoader(
            os.path.join(cat, top)).assert_directory_verifies())
        if oc.kind != 'return' or oc.value is not True:
            return violation(
                f'gen_fast_manifest output does not verify: {oc.describe()}',
                sig='verify-generated:' + oc.kind, classes=classes)
        v = check_generated(cat, top, 'gen_fast_manifest output', classes,
                            sorted(expect_dist))
        if v is not None:
            return v
        return ok(nontrivial=bool(pkgs), classes=classes)
    finally:
        harness.rmtree(root)


PARTS = [
    Part('meta', run_meta, strategy=strat_meta,
         examples={'quick': 1200, 'thorough': 12000},
         budget={'quick': 70, 'thorough': 1200}),
    Part('single', run_single, strategy=strat_single,
         examples={'quick': 4000, 'thorough': 40000},
         budget={'quick': 40, 'thorough': 400}),
]

LEVEL_TEXT = ('Differential check between two independent writers of the '
              'format: the scripts\' output is verified by gemato and by the '
              'reference verifier/scan, gemato update must find nothing to '
              'change and must restore a verifying tree after edits.')
LEVEL_NOTE = ('Trusted: refscan/refverify; the scripts run as shipped in '
              'utils/ (gen_fast_metamanifest.py as a separate process with '
              'its own process pool).')
TECHNIQUE = ('differential property-based testing between programs '
             '(Hypothesis): fast generator scripts vs gemato vs reference '
             'scan')
