#!/venv/bin/python
# Run the repo test suite and compare with BASELINE.json's stable_pass list.
import json, subprocess, sys, xml.etree.ElementTree as ET, tempfile, os
base = json.load(open('/root/.vp/BASELINE.json'))
out = tempfile.mktemp(suffix='.xml', dir='/dev/shm')
subprocess.run(['/venv/bin/python', '-m', 'pytest', '-q', '-p', 'no:cacheprovider', '--timeout=900',
                '--continue-on-collection-errors', '-n', '12', f'--junitxml={out}'], cwd='/repo',
               stdout=subprocess.DEVNULL, stderr=subprocess.DEVNULL)
passed = set()
for tc in ET.parse(out).getroot().iter('testcase'):
    if not any(c.tag in ('failure', 'error', 'skipped') for c in tc):
        passed.add(f"{tc.get('classname')}::{tc.get('name')}")
os.unlink(out)
want = set(base['stable_pass'])
missing = sorted(want - passed)
print(f'stable_pass={len(want)} passed_now={len(passed)} regressions={len(missing)}')
for m in missing[:20]: print('  REGRESSION', m)
sys.exit(1 if missing else 0)
