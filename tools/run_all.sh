#!/bin/sh
# Run every registered quick (or $1) check and print one line per property.
tier=${1:-quick}
cd "$(dirname "$0")/.."
for p in $(/venv/bin/python -c "import json;print(' '.join(c['property_id'] for c in json.load(open('MANIFEST.json'))['checks']))"); do
  start=$(date +%s)
  out=$(/venv/bin/python checks/run.py $p --tier $tier 2>&1); rc=$?
  end=$(date +%s)
  echo "$p rc=$rc $((end-start))s $(echo "$out" | grep -c '^KNOWN-FINDING') known; $(echo "$out" | grep -E '^VIOLATION|^HARNESS' | head -3 | tr '\n' ' ')"
done
