#!/venv/bin/python
import json, sys
r = json.load(open(sys.argv[1]))
def short(o, depth=0):
    return json.dumps(o, ensure_ascii=False)
d = r['desc']
print('SIG', r['sig']); print('DETAIL', r['detail'][:1500])
def dump(x, ind=0):
    if isinstance(x, dict):
        for k, v in x.items():
            if isinstance(v, (dict, list)) and len(json.dumps(v)) > 100:
                print(' '*ind + str(k) + ':'); dump(v, ind+2)
            else: print(' '*ind + f'{k}: {json.dumps(v, ensure_ascii=False)}')
    elif isinstance(x, list):
        for v in x:
            if isinstance(v, (dict, list)) and len(json.dumps(v)) > 160:
                print(' '*ind + '-'); dump(v, ind+2)
            else: print(' '*ind + '- ' + json.dumps(v, ensure_ascii=False))
dump(d)
