#!/venv/bin/python
# Sensitivity self-test: apply hand-made breaking changes to a scratch copy of
# /repo (never to /repo itself) and run the checks against the copy through
# VERIF_REPO.  Usage: tools/mutants.py [--only ID[,ID]] [--prop CNN] [--tier quick]
import argparse, importlib.util, json, os, shutil, subprocess, sys, tempfile, time

HERE = os.path.dirname(os.path.abspath(__file__))
VERIF = os.path.dirname(HERE)
spec = importlib.util.spec_from_file_location('mutant_list', os.path.join(HERE, 'mutant_list.py'))
ml = importlib.util.module_from_spec(spec); spec.loader.exec_module(ml)

ap = argparse.ArgumentParser()
ap.add_argument('--only'); ap.add_argument('--prop'); ap.add_argument('--tier', default='quick')
ap.add_argument('--scale', default='1.0')
args = ap.parse_args()
only = set(args.only.split(',')) if args.only else None
results = []
for mut in ml.MUTANTS:
    mid, props, edits = mut['id'], mut['props'], mut['edits']
    if only and mid not in only: continue
    if args.prop and args.prop not in props: continue
    d = tempfile.mkdtemp(prefix='gemato-mut.', dir='/dev/shm')
    try:
        for sub in ('gemato', 'utils', 'bin'):
            shutil.copytree(os.path.join('/repo', sub), os.path.join(d, sub))
        for (fn, old, new) in edits:
            p = os.path.join(d, fn); s = open(p).read()
            if s.count(old) != 1:
                print(f'!! mutant {mid}: pattern occurs {s.count(old)} times in {fn}'); break
            open(p, 'w').write(s.replace(old, new))
        else:
            for prop in props:
                if args.prop and prop != args.prop: continue
                t0 = time.time()
                r = subprocess.run(['/venv/bin/python', os.path.join(VERIF, 'checks/run.py'), prop,
                                    '--tier', args.tier, '--scale', args.scale],
                                   env=dict(os.environ, VERIF_REPO=d, VERIF_EVIDENCE_DIR='/dev/shm/mut-evidence'),
                                   capture_output=True, text=True, cwd=VERIF)
                sigs = sorted({l.split('sig=')[1].strip() for l in r.stdout.splitlines() if l.startswith('--- violation')})
                verdict = {0: 'MISSED', 1: 'caught', 2: 'HARNESS-ERROR'}.get(r.returncode, str(r.returncode))
                print(f'{mid:38s} {prop} {verdict:8s} {time.time()-t0:5.1f}s {sigs}', flush=True)
                results.append((mid, prop, verdict))
                if r.returncode == 2:
                    print(r.stdout[-1500:], r.stderr[-1500:])
    finally:
        shutil.rmtree(d, ignore_errors=True)
missed = [r for r in results if r[2] != 'caught']
print(f'{len(results)} runs, {len(missed)} not caught')
