#!/venv/bin/python
# Render the task descriptions handed to the seeding sub-agents
# (tools/seed_prompts.py <round> <outdir>).  A sub-agent gets the property
# text, the one-line mechanisms of the changes already kept for that property
# (so that it looks elsewhere) and the path of its own scratch worktree -
# nothing else from /verif.
import glob
import json
import os
import sys

ROUND_FOCUS = {
    6: ('Time is short: deliver ONE change only (call it "a"; skip "b"), '
        'run the suite with -n 3 once at baseline and once with the change. '
        'This time prefer: (1) state carried between two calls on the SAME '
        'object (load then update then save then verify on one '
        'ManifestRecursiveLoader; caches and dirty flags), (2) error paths '
        '(what happens after an exception was caught and the operation '
        'continued), (3) the less used of two sibling branches (the else '
        'arm, the second hash, the compressed variant, the non-default '
        'profile, AUX/EBUILD/MISC/DIST/TIMESTAMP/OPTIONAL/IGNORE tags), '
        '(4) anything you find by reading the code that the list below '
        'does not mention yet. It should look like a plausible refactoring '
        'slip or "optimisation" a maintainer might make, not sabotage '
        'with magic constants.'),
    5: ('This time prefer: (1) COMBINATIONS of two features that each work '
        'alone (compression x signing, IGNORE x symlinks, duplicate entries '
        'x sub-directory operations, profiles x incremental/timestamp '
        'options, keep-going x one-file-system mode, several Manifests in '
        'one directory x anything), (2) the command-line layer (argument '
        'parsing and defaults, option precedence, exit status, which '
        'failures are logged, several paths per invocation), (3) the '
        '2nd..nth element of something (off-by-one at the ends of a list, '
        'state that is not reset between loop iterations, the last entry '
        'of a Manifest, the deepest directory), (4) numeric and time '
        'boundaries (sizes at 2**31/2**32/2**63, mtimes with sub-second '
        'parts, year/century boundaries, 0 and 1 of everything), (5) '
        'anything you find by reading the code that the list below does '
        'not mention yet. They should look like plausible refactoring '
        'slips or "optimisations" a maintainer might make, not sabotage '
        'with magic constants.'),
    4: ('This time prefer: (1) entry points and option combinations that '
        'are used less often (single-path API calls such as verify_path / '
        'assert_path_verifies / update_entry_for_path / find_path_entry / '
        'find_dist_entry / get_file_entry_dict, rarely used CLI options, '
        'the same operation reached through the CLI vs. the library), '
        '(2) boundary values (empty files, empty or entry-less Manifests, '
        'sizes/lengths exactly at a threshold, deep nesting, very long or '
        'unusual names, the first/last element of a list), (3) breakage '
        'that is specific to ONE hash algorithm, ONE compression format, '
        'ONE entry tag or ONE profile, (4) interactions with symlinks, '
        'hidden files, special files, IGNORE entries or duplicate entries, '
        '(5) wrong results that only appear when an operation is repeated, '
        'interleaved with another one, or follows a failed one. They '
        'should look like plausible refactoring slips or "optimisations" a '
        'maintainer might make, not sabotage with magic constants.'),
}


def main():
    rnd = int(sys.argv[1])
    out = sys.argv[2]
    os.makedirs(out, exist_ok=True)
    verif = os.path.dirname(os.path.dirname(os.path.abspath(__file__)))
    props = [json.loads(ln) for ln in open(
        os.path.join(verif, 'properties.jsonl'))]
    for p in props:
        pid = p['id']
        wt = f'/tmp/seed{rnd}-{pid}'
        taken = []
        for d in sorted(glob.glob(os.path.join(verif, 'seeded', pid + '-*'))):
            m = json.load(open(os.path.join(d, 'meta.json')))
            if m.get('needs'):
                taken.append('- ' + m['needs'])
        text = f'''You are helping to evaluate a verification framework for the Python project "gemato" (reference implementation of Gentoo GLEP 74 Manifest files: parser/writer, recursive tree verify/update, OpenPGP signature checks via gpg). You have your own scratch git worktree of the project at {wt} (work ONLY there; never touch /repo or /verif, and do not read anything under /verif).

Below is a semantic property the project is supposed to satisfy. Your job: produce TWO different, realistic code changes to gemato (each a separate small patch, touching different code sites or mechanisms) that BREAK this property while the project still imports and the existing test suite still passes exactly as before. Prefer changes that need something specific to manifest - a multi-step sequence of operations, an unusual input, a particular configuration, a fault at a particular point, or two cooperating sites that each look fine alone - rather than ones ordinary use would expose at once. IMPORTANT: earlier contributors already produced the changes listed under 'Already taken' below - yours must use DIFFERENT mechanisms and code sites. {ROUND_FOCUS[rnd]}

Property {pid}: {p['title']}

Statement: {p['statement']}

Quantified over: {p['quantifier']['text']}

Already taken (do not repeat):
{chr(10).join(taken)}


How to work:
1. Read the relevant code under {wt}/gemato (and {wt}/utils if the property is about the utils scripts).
2. First record the baseline: run the full suite `cd {wt} && PYTHONPATH={wt} /venv/bin/python -m pytest -q -p no:cacheprovider -n 4 2>&1 | tail -15`. A handful of tests already FAIL at baseline in this sandbox (tests needing unreadable files as root, and UNSIGNED_PUBLIC_KEY key-import cases); that is expected - what matters is that your change does not alter which tests pass/fail. (The machine is busy: use -n 4, and be patient.)
3. For each change (call them "a" and "b"): apply it in the worktree, run the full suite again and confirm the same tests pass/fail as at baseline, write a demonstration script {wt}/demo_<a|b>.py (stand-alone Python run as `PYTHONPATH={wt} /venv/bin/python {wt}/demo_<x>.py`, using temporary directories; gpg is available as `gpg` if needed) that exits 0 on the unchanged code and exits non-zero (with a short message) with your change applied, save the change as a unified diff with `git -C {wt} diff -- gemato utils > {wt}/seed_<a|b>.diff`, then revert the source with `git -C {wt} checkout -- gemato utils` before starting the next change.
4. Verify each demo yourself both ways (passes on clean tree, fails with `git -C {wt} apply seed_<x>.diff`, then revert again).
5. Finish with the worktree source clean (only the untracked files seed_a.diff, seed_b.diff, demo_a.py, demo_b.py, NOTES.md present). Write {wt}/NOTES.md: for each change, 3-6 lines: what it changes, why it breaks the property, and what specific input/sequence/configuration is needed for the breakage to show.

Report back briefly: the two changes in one sentence each and confirmation of the test-suite and demo runs.
'''
        with open(os.path.join(out, f'{pid}.prompt{rnd}'), 'w') as f:
            f.write(text)
    print(len(props), 'prompts in', out)


main()
