#!/venv/bin/python
# Run the checks against the seeded changes kept under /verif/seeded/<id>/.
# Each change is applied to a scratch copy of /repo (never to /repo itself)
# and the check(s) named in meta.json run against the copy via VERIF_REPO.
# Usage: tools/seeded.py [--only id,id] [--tier quick] [--all-checks]
import argparse, glob, json, os, shutil, subprocess, tempfile, time
HERE = os.path.dirname(os.path.abspath(__file__)); VERIF = os.path.dirname(HERE)
ap = argparse.ArgumentParser(); ap.add_argument('--only'); ap.add_argument('--tier', default='quick')
ap.add_argument('--checks'); ap.add_argument('--record', action='store_true'); args = ap.parse_args()
only = set(args.only.split(',')) if args.only else None
rows = []
for d in sorted(glob.glob(os.path.join(VERIF, 'seeded', '*'))):
    sid = os.path.basename(d)
    if only and sid not in only: continue
    meta = json.load(open(os.path.join(d, 'meta.json')))
    checks = args.checks.split(',') if args.checks else meta.get('run_checks', [meta['property']])
    w = tempfile.mkdtemp(prefix='gemato-seed.', dir='/dev/shm')
    try:
        for sub in ('gemato', 'utils', 'bin'):
            shutil.copytree(os.path.join('/repo', sub), os.path.join(w, sub))
        r = subprocess.run(['patch', '-p1', '-s', '-i', os.path.join(d, 'patch.diff')], cwd=w, capture_output=True, text=True)
        if r.returncode != 0:
            print(f'{sid}: patch does not apply: {r.stdout} {r.stderr}'); continue
        for prop in checks:
            t0 = time.time()
            r = subprocess.run(['/venv/bin/python', os.path.join(VERIF, 'checks/run.py'), prop, '--tier', args.tier],
                               env=dict(os.environ, VERIF_REPO=w, VERIF_EVIDENCE_DIR='/dev/shm/seed-evidence'),
                               capture_output=True, text=True, cwd=VERIF)
            sigs = sorted({l.split('sig=')[1].strip() for l in r.stdout.splitlines() if l.startswith('--- violation')})
            verdict = {0: 'MISSED', 1: 'caught', 2: 'HARNESS-ERROR'}.get(r.returncode, str(r.returncode))
            print(f'{sid:28s} {prop} {verdict:8s} {time.time()-t0:5.1f}s {sigs}', flush=True)
            rows.append((sid, prop, verdict, sigs))
            if args.record and verdict == 'caught':
                meta['caught_by'] = {'check': prop, 'tier': args.tier, 'signatures': sigs,
                                     'how_run': 'tools/seeded.py (patch applied to a scratch copy of /repo, check pointed at it via VERIF_REPO)'}
                json.dump(meta, open(os.path.join(d, 'meta.json'), 'w'), indent=1)
    finally:
        shutil.rmtree(w, ignore_errors=True)
print(f'{len(rows)} runs, {sum(1 for r in rows if r[2] != "caught")} not caught')
