# Hand-made breaking changes used for the sensitivity self-tests (DESIGN 1.8).
# Each edit is (file, old, new); `old` must occur exactly once.
RL = 'gemato/recursiveloader.py'
VF = 'gemato/verify.py'
MF = 'gemato/manifest.py'
UT = 'gemato/util.py'
CL = 'gemato/cli.py'
HS = 'gemato/hash.py'

MUTANTS = [
 # ---- C01
 dict(id='c01-startswith', props=['C01'], edits=[(UT,
   'return prefix == "" or (path + "/").startswith(prefix.rstrip("/") + "/")',
   'return prefix == "" or path.startswith(prefix)')]),
 dict(id='c01-no-missing-dir-pass', props=['C01'], edits=[(RL,
   '                    ret &= verifier._verify_one_file(syspath, fpath, e)',
   '                    pass')]),
 dict(id='c01-mtime-ge', props=['C01'], edits=[(VF,
   'if (last_mtime is not None and st_mtime <= last_mtime\n                and st_size != 0):',
   'if (last_mtime is not None and st_mtime >= last_mtime\n                and st_size != 0):')]),
 dict(id='c01-first-checksum-only', props=['C01'], edits=[(VF,
   '            if got != exp:\n                diff.append((h, exp, got))',
   '            if got != exp:\n                diff.append((h, exp, got))\n            break')]),
 dict(id='c01-dup-merge-loses-first', props=['C01'], edits=[(RL,
   '                                if d2 is None:\n                                    new_checksums[k] = d1',
   '                                if d2 is None:\n                                    pass')]),
 dict(id='c01-cli-ret-assign', props=['C01'], edits=[(CL,
   'ret &= m.assert_directory_verifies(relpath, **self.kwargs)',
   'ret = m.assert_directory_verifies(relpath, **self.kwargs)')]),
 dict(id='c01-skip-size-check', props=['C01'], edits=[(VF,
   "        if st_size != 0 and st_size != e.size:\n            return (False, [('__size__', e.size, st_size)])",
   "        pass")]),
 dict(id='c01-hidden-dir-files-unchecked', props=['C01'], edits=[(RL,
   "        for f, e in dirdict.items():\n            fpath = os.path.join(relpath, f)\n            ret &= self._verify_one_file(os.path.join(dirpath, f),\n                                         fpath, e)",
   "        for f, e in dirdict.items():\n            if f.startswith('.'):\n                continue\n            fpath = os.path.join(relpath, f)\n            ret &= self._verify_one_file(os.path.join(dirpath, f),\n                                         fpath, e)")]),
 dict(id='c01-type-check-dropped', props=['C01'], edits=[(VF,
   "        if not stat.S_ISREG(ifmt):\n            return (False, [('__type__', 'regular file', ftype)])",
   "        if not stat.S_ISREG(ifmt):\n            return (True, [])")]),
 dict(id='c01-incompat-size-ignored', props=['C01'], edits=[(VF,
   "    if e1.size != e2.size:\n        return (False, [('__size__', e1.size, e2.size)])",
   "    pass")]),
]

MUTANTS += [
 # ---- C07
 dict(id='c07-lazy-map', props=['C07'], edits=[(UT,
   'return list(map(func, it))', 'return map(func, it)')]),
 dict(id='c07-trailing-ret-assign', props=['C07'], edits=[(RL,
   '                    ret &= verifier._verify_one_file(syspath, fpath, e)',
   '                    ret = verifier._verify_one_file(syspath, fpath, e)')]),
 dict(id='c07-none-not-true', props=['C07'], edits=[(RL,
   '            if ret is None:\n                ret = True',
   '            pass')]),
 dict(id='c07-dirdict-get-not-pop', props=['C07'], edits=[(RL,
   '            fe = dirdict.pop(f, None)', '            fe = dirdict.get(f, None)')]),
 dict(id='c07-no-trailing-pass', props=['C07'], edits=[(RL,
   '                    ret &= verifier._verify_one_file(syspath, fpath, e)',
   '                    pass')]),
 dict(id='c07-cli-handler-true', props=['C07'], edits=[(CL,
   'def verify_failure(e):\n    logging.error(e)\n    return False',
   'def verify_failure(e):\n    logging.error(e)\n    return None')]),
 dict(id='c07-dir-entries-and', props=['C07'], edits=[(RL,
   '            ret &= self._verify_one_file(os.path.join(dirpath, f),\n                                         fpath, fe)',
   '            ret = ret and self._verify_one_file(os.path.join(dirpath, f),\n                                         fpath, fe)')]),
]

MUTANTS += [
 # ---- C02
 dict(id='c02-verify-default-off', props=['C02'], edits=[(RL,
   'def load_manifests_for_path(self, path, recursive=False, verify=True):',
   'def load_manifests_for_path(self, path, recursive=False, verify=False):')]),
 dict(id='c02-verify-inverted', props=['C02'], edits=[(RL,
   '                        if not verify:\n                            e = None',
   '                        if verify:\n                            e = None')]),
 dict(id='c02-skip-compressed', props=['C02'], edits=[(RL,
   '        if verify_entry is not None:\n            ret, diff = verify_path(path, verify_entry)',
   "        if verify_entry is not None and not relpath.endswith(('.gz', '.xz')):\n            ret, diff = verify_path(path, verify_entry)")]),
 dict(id='c02-ignore-ret', props=['C02'], edits=[(RL,
   '            if not ret:\n                raise ManifestMismatch(relpath, verify_entry, diff)',
   '            if not ret and False:\n                raise ManifestMismatch(relpath, verify_entry, diff)')]),
 dict(id='c02-dist-lookup-unverified', props=['C02'], edits=[(RL,
   "        self.load_manifests_for_path(relpath+'/')\n",
   "        self.load_manifests_for_path(relpath+'/', verify=False)\n")]),
 dict(id='c02-deep-unverified', props=['C02'], edits=[(RL,
   '                        if not verify:\n                            e = None',
   "                        if not verify or mpath.count('/') >= 3:\n                            e = None")]),
 dict(id='c02-size-only', props=['C02'], edits=[(RL,
   '            ret, diff = verify_path(path, verify_entry)\n            if not ret:',
   "            ret, diff = verify_path(path, verify_entry)\n            if not ret and diff[0][0] in ('__size__', '__exists__', '__type__'):")]),
]

MUTANTS += [
 # ---- C03
 dict(id='c03-no-stack-pop', props=['C03'], edits=[(RL,
   "            while not path_starts_with(relpath, manifest_stack[-1][1]):\n                manifest_stack.pop()",
   "            pass")]),
 dict(id='c03-new-entries-to-stack0', props=['C03'], edits=[(RL,
   "                mpath, mdirpath, m = manifest_stack[-1]\n                for fe in new_entries:",
   "                mpath, mdirpath, m = manifest_stack[0]\n                for fe in new_entries:")]),
 dict(id='c03-keep-vanished', props=['C03'], edits=[(RL,
   "            self.loaded_manifests[mpath].entries.remove(fe)\n            self.updated_manifests.add(mpath)",
   "            pass")]),
 dict(id='c03-existing-keep-hashes', props=['C03'], edits=[(RL,
   "                changed = update_entry_for_path(\n                    os.path.join(dirpath, f),\n                    fe,\n                    hashes=hashes,",
   "                changed = update_entry_for_path(\n                    os.path.join(dirpath, f),\n                    fe,\n                    hashes=(hashes if not fe.checksums else None),")]),
 dict(id='c03-save-parents-first', props=['C03'], edits=[(RL,
   "            return sorted(manifests,\n                          key=lambda kdv: len(kdv[1]),\n                          reverse=True)",
   "            return sorted(manifests,\n                          key=lambda kdv: len(kdv[1]),\n                          reverse=False)")]),
 dict(id='c03-same-dir-order-lost', props=['C03'], edits=[(RL,
   "                                       levels.get(kdv[0], 0)),",
   "                                       0),")]),
 dict(id='c03-dedup-keeps-dup-across-manifests', props=['C03'], edits=[(RL,
   "                        # and drop the duplicate\n                        entries_to_remove.append(e)",
   "                        # and drop the duplicate\n                        if mpath == out[fullpath][0]:\n                            entries_to_remove.append(e)")]),
 dict(id='c03-changed-not-queued', props=['C03'], edits=[(RL,
   "                if changed and mpath is not None:\n                    self.updated_manifests.add(mpath)",
   "                if changed and mpath is not None and mpath.count('/') < 2:\n                    self.updated_manifests.add(mpath)")]),
 dict(id='c03-size-from-stat', props=['C03'], edits=[(VF,
   "        if e.size != size or e.checksums != checksums:\n            e.size = size",
   "        if e.size != size or e.checksums != checksums:\n            e.size = e.size if e.size else size")]),
]

CP = 'gemato/compression.py'
MUTANTS += [
 # ---- C12
 dict(id='c12-always-changed', props=['C12'], edits=[(VF,
   "            e.checksums = checksums\n            return True\n        return False",
   "            e.checksums = checksums\n            return True\n        return True")]),
 dict(id='c12-sort-top-only', props=['C12'], edits=[(RL,
   "                unc_size = self.save_manifest(mpath, sort=sort)",
   "                unc_size = self.save_manifest(mpath, sort=(sort and mpath == self.top_level_manifest_filename))")]),
 dict(id='c12-lt-tag-only', props=['C12'], edits=[(MF,
   "        return (self.tag < other.tag\n                or (self.tag == other.tag and self.path < other.path))",
   "        return self.tag < other.tag")]),
 dict(id='c12-gzip-mtime', props=['C12'], edits=[(CP,
   "return gzip.GzipFile(fileobj=f, mode=mode, filename='', mtime=0)",
   "return gzip.GzipFile(fileobj=f, mode=mode, filename='')")]),
 dict(id='c12-force-always', props=['C12'], edits=[(RL,
   "            if force or mpath in self.updated_manifests:\n                unc_size",
   "            if True:\n                unc_size")]),
 dict(id='c12-new-entry-order-leaks', props=['C12'], edits=[(MF,
   "        if sort:\n            self.entries = sorted(self.entries)",
   "        if sort and len(self.entries) < 4:\n            self.entries = sorted(self.entries)")]),
]

PF = 'gemato/profile.py'
MUTANTS += [
 # ---- C13
 dict(id='c13-watermark-gt', props=['C13'], edits=[(PF,
   "return (unc_size >= compress_watermark and relpath != 'Manifest')",
   "return (unc_size > compress_watermark and relpath != 'Manifest')")]),
 dict(id='c13-top-compressed', props=['C13'], edits=[(PF,
   "return (unc_size >= compress_watermark and relpath != 'Manifest')",
   "return (unc_size >= compress_watermark)")]),
 dict(id='c13-no-unlink', props=['C13'], edits=[(RL,
   "                        os.unlink(os.path.join(self.root_directory,\n                                               mpath))",
   "                        pass")]),
 dict(id='c13-renamed-lookup-skipped', props=['C13'], edits=[(RL,
   "                if fullpath in renamed_manifests:\n                    fullpath = renamed_manifests[fullpath]\n                    e.path = os.path.relpath(fullpath, relpath)",
   "                pass")]),
 dict(id='c13-lzma-as-xz', props=['C13'], edits=[(CP,
   "return lzma.LZMAFile(f, format=lzma.FORMAT_ALONE, mode=mode)",
   "return lzma.LZMAFile(f, format=(lzma.FORMAT_ALONE if 'w' in mode else lzma.FORMAT_XZ), mode=mode)")]),
 dict(id='c13-lookup-skips-compressed', props=['C13'], edits=[(RL,
   "                        if curmpath == mpath or mpath in self.loaded_manifests:\n                            continue\n                        mdir = os.path.dirname(mpath)\n                        if not verify:",
   "                        if curmpath == mpath or mpath in self.loaded_manifests:\n                            continue\n                        mdir = os.path.dirname(mpath)\n                        if not recursive and mpath.endswith('.bz2'):\n                            continue\n                        if not verify:")]),
 dict(id='c13-format-ignored-on-recompress', props=['C13'], edits=[(RL,
   "                            new_mpath = mpath + '.' + compress_format",
   "                            new_mpath = mpath + '.gz'")]),
]

MUTANTS += [
 # ---- C10
 dict(id='c10-dist-deduped-away', props=['C10'], edits=[(RL,
   "                if e.tag in ('DIST', 'TIMESTAMP'):\n                    # distfiles are not local files, so skip them\n                    # timestamp is not a file ;-)\n                    continue\n\n                fullpath = os.path.join(relpath, e.path)\n                if path_starts_with(fullpath, path):\n                    if fullpath in out:",
   "                if e.tag in ('TIMESTAMP',):\n                    # distfiles are not local files, so skip them\n                    # timestamp is not a file ;-)\n                    continue\n\n                fullpath = os.path.join(relpath, e.path)\n                if path_starts_with(fullpath, path):\n                    if fullpath in out:")]),
 dict(id='c10-ignore-dropped', props=['C10'], edits=[(RL,
   "            if fe.tag == 'IGNORE':\n                continue\n\n            self.loaded_manifests[mpath].entries.remove(fe)",
   "            self.loaded_manifests[mpath].entries.remove(fe)")]),
 dict(id='c10-type-reset-on-refresh', props=['C10'], edits=[(RL,
   "                changed = update_entry_for_path(\n                    os.path.join(dirpath, f),\n                    fe,",
   "                if fe.tag in ('MISC', 'EBUILD') and mpath is not None:\n                    i_ = self.loaded_manifests[mpath].entries.index(fe)\n                    fe = new_manifest_entry('DATA', fe.path, fe.size, fe.checksums)\n                    self.loaded_manifests[mpath].entries[i_] = fe\n                    self.updated_manifests.add(mpath)\n                changed = update_entry_for_path(\n                    os.path.join(dirpath, f),\n                    fe,")]),
 dict(id='c10-save-inside-update', props=['C10'], edits=[(RL,
   "        # check for removed files\n        for relpath, me in entry_dict.items():",
   "        if self.updated_manifests:\n            self.save_manifests(hashes=hashes)\n        # check for removed files\n        for relpath, me in entry_dict.items():")]),
 dict(id='c10-verify-writes-cache', props=['C10'], edits=[(RL,
   "        verifier = SubprocessVerifier(\n                self.top_level_manifest_filename,",
   "        open(os.path.join(self.root_directory, '.gemato-cache'), 'w').close()\n        verifier = SubprocessVerifier(\n                self.top_level_manifest_filename,")]),
 dict(id='c10-subdir-update-dedups-outside', props=['C10'], edits=[(RL,
   "        entry_dict = self.get_deduplicated_file_entry_dict_for_update(\n            path, verify_manifests=verify_manifests)",
   "        self.get_deduplicated_file_entry_dict_for_update(\n            '', verify_manifests=verify_manifests)\n        entry_dict = self.get_deduplicated_file_entry_dict_for_update(\n            path, verify_manifests=verify_manifests)")]),
 dict(id='c10-lib-update-touches-timestamp', props=['C10'], edits=[(RL,
   "        # check for removed files\n        for relpath, me in entry_dict.items():",
   "        import datetime as _dt\n        for _m in self.loaded_manifests.values():\n            for _e in _m.entries:\n                if _e.tag == 'TIMESTAMP':\n                    _e.ts = _dt.datetime(2030, 1, 1)\n        # check for removed files\n        for relpath, me in entry_dict.items():")]),
 dict(id='c10-utime-data-files', props=['C10'], edits=[(VF,
   "        # 6. get the checksums and real size\n        checksums = next(g)\n        size = checksums.pop('__size__')\n        if st_size != 0:",
   "        # 6. get the checksums and real size\n        checksums = next(g)\n        os.utime(path)\n        size = checksums.pop('__size__')\n        if st_size != 0:")]),
]

MUTANTS += [
 # ---- C06
 dict(id='c06-any-oserror-absent', props=['C06'], edits=[(VF,
   "    except FileNotFoundError:\n        exists = False\n        opened = False\n    except OSError as err:",
   "    except (FileNotFoundError, PermissionError):\n        exists = False\n        opened = False\n    except OSError as err:")]),
 dict(id='c06-walk-onerror-none', props=['C06'], edits=[(RL,
   "        entry_dict = self.get_file_entry_dict(path)\n        it = os.walk(os.path.join(self.root_directory, path),\n                     onerror=throw_exception,",
   "        entry_dict = self.get_file_entry_dict(path)\n        it = os.walk(os.path.join(self.root_directory, path),\n                     onerror=None,")]),
 dict(id='c06-dirstat-swallowed', props=['C06'], edits=[(RL,
   "            for dirpath, dirnames, filenames in it:\n                dir_st = os.stat(dirpath)\n                if (self.manifest_device is not None",
   "            for dirpath, dirnames, filenames in it:\n                try:\n                    dir_st = os.stat(dirpath)\n                except OSError:\n                    continue\n                if (self.manifest_device is not None")]),
 dict(id='c06-exists-precheck', props=['C06'], edits=[(RL,
   "        real_path = os.path.join(self.root_directory, relpath)\n        path_entry = self.find_path_entry(relpath)\n        return verify_path(real_path, path_entry)",
   "        real_path = os.path.join(self.root_directory, relpath)\n        path_entry = self.find_path_entry(relpath)\n        try:\n            os.stat(real_path)\n        except OSError:\n            return verify_path(real_path + '.missing', path_entry)\n        return verify_path(real_path, path_entry)")]),
 dict(id='c06-update-walk-ignores-errors', props=['C06'], edits=[(RL,
   "        directory_ids = {}\n\n        it = os.walk(os.path.join(self.root_directory, path),\n                     onerror=throw_exception,",
   "        directory_ids = {}\n\n        it = os.walk(os.path.join(self.root_directory, path),\n                     onerror=None,")]),
 dict(id='c06-read-error-short-hash', props=['C06'], edits=[(HS,
   "        block = f.read()\n        for h in hashes.values():\n            h.update(block)",
   "        try:\n            block = f.read()\n        except OSError:\n            block = b''\n        for h in hashes.values():\n            h.update(block)")]),
 dict(id='c06-fd-leak', props=['C06'], edits=[(VF,
   "    except Exception:\n        if opened:\n            os.close(fd)\n        raise",
   "    except Exception:\n        raise")]),
 dict(id='c06-submanifest-unreadable-skipped', props=['C06'], edits=[(RL,
   "                manifests = pool.imap_unordered(\n                    self.manifest_loader, to_load, chunksize=16)\n                self.loaded_manifests.update(manifests)",
   "                def _safe(args):\n                    try:\n                        return self.manifest_loader(args)\n                    except PermissionError:\n                        return (args[0], ManifestFile())\n                manifests = pool.imap_unordered(\n                    _safe, to_load, chunksize=16)\n                self.loaded_manifests.update(manifests)")]),
]

MUTANTS += [
 # ---- C11
 dict(id='c11-naive-local-timestamp', props=['C11'], edits=[(CL,
   "                update_kwargs['last_mtime'] = (\n                    last_ts.ts.replace(tzinfo=datetime.timezone.utc)\n                    .timestamp())",
   "                update_kwargs['last_mtime'] = last_ts.ts.timestamp()")]),
 dict(id='c11-size-check-dropped', props=['C11'], edits=[(VF,
   "                and st_size != 0 and st_size == e.size):\n            return False",
   "                and st_size != 0):\n            return False")]),
 dict(id='c11-start-ts-after-scan', props=['C11'], edits=[(CL,
   "            start_ts = datetime.datetime.utcnow()\n            m.update_entries_for_directory(relpath, **update_kwargs)",
   "            m.update_entries_for_directory(relpath, **update_kwargs)\n            start_ts = datetime.datetime.utcnow()")]),
 dict(id='c11-timestamp-rounded-up', props=['C11'], edits=[(CL,
   "            start_ts = datetime.datetime.utcnow()\n            m.update_entries_for_directory(relpath, **update_kwargs)",
   "            start_ts = datetime.datetime.utcnow() + datetime.timedelta(seconds=1)\n            m.update_entries_for_directory(relpath, **update_kwargs)")]),
 dict(id='c11-mtime-lt-ok', props=[], edits=[]),
 dict(id='c11-skip-plus-one-second', props=['C11'], edits=[(VF,
   "        if (last_mtime is not None and st_mtime <= last_mtime\n                and st_size != 0 and st_size == e.size):",
   "        if (last_mtime is not None and st_mtime <= last_mtime + 1\n                and st_size != 0 and st_size == e.size):")]),
 dict(id='c11-removed-files-kept-incremental', props=['C11'], edits=[(RL,
   "        # check for removed files\n        for relpath, me in entry_dict.items():\n            mpath, fe = me\n            if fe.tag == 'IGNORE':\n                continue",
   "        # check for removed files\n        for relpath, me in entry_dict.items():\n            mpath, fe = me\n            if fe.tag == 'IGNORE' or last_mtime is not None:\n                continue")]),
]
MUTANTS = [m for m in MUTANTS if m['edits']]

FT = 'gemato/find_top_level.py'
MUTANTS += [
 # ---- C15
 dict(id='c15-ignore-startswith', props=['C15'], edits=[(MF,
   "                if path_starts_with(path, e.path):\n                    return e",
   "                if path.startswith(e.path):\n                    return e")]),
 dict(id='c15-ignore-continue', props=['C15'], edits=[(FT,
   "                if fe is not None and fe.tag == 'IGNORE':\n                    return last_found",
   "                if fe is not None and fe.tag == 'IGNORE':\n                    break")]),
 dict(id='c15-break-after-first', props=['C15'], edits=[(FT,
   "                last_found = m_path\n                break\n",
   "                last_found = m_path\n                return last_found\n")]),
 dict(id='c15-compressed-always', props=['C15'], edits=[(FT,
   "    if allow_compressed:\n        manifest_filenames",
   "    if True:\n        manifest_filenames")]),
 dict(id='c15-dev-vs-parent', props=['C15'], edits=[(FT,
   "        elif original_dev != st.st_dev and not allow_xdev:\n            break",
   "        elif original_dev != st.st_dev and not allow_xdev:\n            original_dev = st.st_dev")]),
 dict(id='c15-xdev-ignored', props=['C15'], edits=[(FT,
   "        elif original_dev != st.st_dev and not allow_xdev:\n            break",
   "        elif original_dev != st.st_dev and not allow_xdev and False:\n            break")]),
 dict(id='c15-relpath-basename', props=['C15'], edits=[(FT,
   "                relpath = os.path.relpath(path, cur_path)",
   "                relpath = os.path.basename(os.path.abspath(path))")]),
]

MUTANTS += [
 # ---- C16
 dict(id='c16-ancestors-lost-verify', props=['C16'], edits=[(RL,
   "                if dirnames:\n                    directory_ids[dirpath] = parent_dir_ids + [dir_id]\n\n                yield",
   "                if dirnames:\n                    directory_ids[dirpath] = [dir_id]\n\n                yield")]),
 dict(id='c16-no-loop-check-update', props=['C16'], edits=[(RL,
   "            if dir_id in parent_dir_ids:\n                raise ManifestSymlinkLoop(dirpath)\n\n            relpath = os.path.relpath(dirpath, self.root_directory)\n            # strip dot to avoid matching problems\n            if relpath == '.':\n                relpath = ''\n\n            # drop Manifest paths",
   "            relpath = os.path.relpath(dirpath, self.root_directory)\n            # strip dot to avoid matching problems\n            if relpath == '.':\n                relpath = ''\n\n            # drop Manifest paths")]),
 dict(id='c16-no-file-dev-check', props=['C16'], edits=[(VF,
   "        st_dev = next(g)\n        if expected_dev is not None and st_dev != expected_dev:\n            raise ManifestCrossDevice(path)\n\n        # 3. verify whether the file is a regular file\n        ifmt, ftype = next(g)\n        if not stat.S_ISREG(ifmt):\n            return (False, [('__type__', 'regular file', ftype)])",
   "        st_dev = next(g)\n\n        # 3. verify whether the file is a regular file\n        ifmt, ftype = next(g)\n        if not stat.S_ISREG(ifmt):\n            return (False, [('__type__', 'regular file', ftype)])")]),
 dict(id='c16-ignored-link-descended', props=['C16'], edits=[(RL,
   "                    skip_dirs.append(d)\n                    if de.tag == 'IGNORE':\n                        del dirdict[d]",
   "                    if de.tag == 'IGNORE':\n                        del dirdict[d]\n                    else:\n                        skip_dirs.append(d)")]),
 dict(id='c16-no-dir-dev-check-update', props=['C16'], edits=[(RL,
   "            if (self.manifest_device is not None\n                    and dir_st.st_dev != self.manifest_device):\n                raise ManifestCrossDevice(dirpath)\n\n            dir_id = (dir_st.st_dev, dir_st.st_ino)\n            # if this directory was already processed for one of its\n            # parents, we're in a loop\n            parent_dir = os.path.dirname(dirpath)\n            parent_dir_ids = directory_ids.get(parent_dir, [])\n            if dir_id in parent_dir_ids:\n                raise ManifestSymlinkLoop(dirpath)\n\n            relpath = os.path.relpath(dirpath, self.root_directory)\n            # strip dot to avoid matching problems\n            if relpath == '.':\n                relpath = ''\n\n            # drop Manifest",
   "            dir_id = (dir_st.st_dev, dir_st.st_ino)\n            # if this directory was already processed for one of its\n            # parents, we're in a loop\n            parent_dir = os.path.dirname(dirpath)\n            parent_dir_ids = directory_ids.get(parent_dir, [])\n            if dir_id in parent_dir_ids:\n                raise ManifestSymlinkLoop(dirpath)\n\n            relpath = os.path.relpath(dirpath, self.root_directory)\n            # strip dot to avoid matching problems\n            if relpath == '.':\n                relpath = ''\n\n            # drop Manifest")]),
 dict(id='c16-loop-any-revisit', props=['C16'], edits=[(RL,
   "                parent_dir_ids = directory_ids.get(parent_dir, [])\n                if dir_id in parent_dir_ids:\n                    raise ManifestSymlinkLoop(dirpath)",
   "                parent_dir_ids = directory_ids.get(parent_dir, [])\n                if dir_id in parent_dir_ids or any(dir_id in v for v in directory_ids.values()):\n                    raise ManifestSymlinkLoop(dirpath)")]),
 dict(id='c16-followlinks-off-unregistered', props=['C16'], edits=[(RL,
   "        new_manifests = []\n        directory_ids = {}\n        it = os.walk(os.path.join(self.root_directory, path),\n                     onerror=throw_exception,\n                     followlinks=True)",
   "        new_manifests = []\n        directory_ids = {}\n        it = os.walk(os.path.join(self.root_directory, path),\n                     onerror=throw_exception,\n                     followlinks=False)")]),
]

MUTANTS += [
 dict(id='c16-no-loop-check-update-both', props=['C16'], edits=[
  (RL,
   "            if dir_id in parent_dir_ids:\n                raise ManifestSymlinkLoop(dirpath)\n\n            relpath = os.path.relpath(dirpath, self.root_directory)\n            # strip dot to avoid matching problems\n            if relpath == '.':\n                relpath = ''\n\n            # drop Manifest paths",
   "            relpath = os.path.relpath(dirpath, self.root_directory)\n            # strip dot to avoid matching problems\n            if relpath == '.':\n                relpath = ''\n\n            # drop Manifest paths"),
  (RL,
   "            if dir_id in parent_dir_ids:\n                raise ManifestSymlinkLoop(dirpath)\n\n            relpath = os.path.relpath(dirpath, self.root_directory)\n            # strip dot to avoid matching problems\n            if relpath == '.':\n                relpath = ''\n            dirdict = entry_dict.get(relpath, {})",
   "            relpath = os.path.relpath(dirpath, self.root_directory)\n            # strip dot to avoid matching problems\n            if relpath == '.':\n                relpath = ''\n            dirdict = entry_dict.get(relpath, {})")]),
]

MUTANTS += [
 # ---- C04
 dict(id='c04-dash-unescape-1', props=['C04'], edits=[(MF,
   "                if line.startswith('- '):\n                    line = line[2:]",
   "                if line.startswith('- '):\n                    line = line[3:]")]),
 dict(id='c04-entries-before-signed-ok', props=['C04'], edits=[(MF,
   "                    if self.entries:\n                        raise ManifestUnsignedData()",
   "                    pass")]),
 dict(id='c04-post-data-ok', props=['C04'], edits=[(MF,
   "            if state == ManifestState.POST_SIGNED_DATA:\n                raise ManifestUnsignedData()",
   "            pass")]),
 dict(id='c04-handed-misses-begin', props=['C04'], edits=[(MF,
   "                    if verify_openpgp:\n                        openpgp_data += line\n                    state = ManifestState.SIGNED_PREAMBLE",
   "                    state = ManifestState.SIGNED_PREAMBLE")]),
 dict(id='c04-signature-lines-parsed', props=['C04'], edits=[(MF,
   "            if state in (ManifestState.SIGNED_PREAMBLE,\n                         ManifestState.SIGNATURE):\n                continue",
   "            if state in (ManifestState.SIGNED_PREAMBLE,):\n                continue")]),
 dict(id='c04-armor-check-removed', props=['C04'], edits=[(MF,
   "            if line.startswith('-----') and line.rstrip().endswith('-----'):\n                raise ManifestSyntaxError(\n                    f'Unexpected OpenPGP header: {line}')\n            if state in",
   "            if state in")]),
 dict(id='c04-signed-flag-early', props=['C04'], edits=[(MF,
   "        if verify_openpgp and state == ManifestState.POST_SIGNED_DATA:\n            assert openpgp_env",
   "        if state == ManifestState.POST_SIGNED_DATA:\n            self.openpgp_signed = True\n        if verify_openpgp and state == ManifestState.POST_SIGNED_DATA:\n            assert openpgp_env")]),
 dict(id='c04-preamble-entries-parsed', props=['C04'], edits=[(MF,
   "            if state in (ManifestState.SIGNED_PREAMBLE,\n                         ManifestState.SIGNATURE):\n                continue",
   "            if state in (ManifestState.SIGNATURE,):\n                continue"),
   (MF, "                            f'Unexpected OpenPGP header: {line}')\n                    continue\n                state = ManifestState.SIGNED_DATA",
        "                            f'Unexpected OpenPGP header: {line}')\n                    if not line.startswith('DATA'):\n                        continue\n                else:\n                    state = ManifestState.SIGNED_DATA")]),
 dict(id='c04-rstrip-before-verify', props=['C04'], edits=[(MF,
   "            elif state == ManifestState.SIGNED_DATA:\n                if verify_openpgp:\n                    openpgp_data += line",
   "            elif state == ManifestState.SIGNED_DATA:\n                if verify_openpgp and line.strip():\n                    openpgp_data += line")]),
]

OP = 'gemato/openpgp.py'
MUTANTS += [
 # ---- C05
 dict(id='c05-undefined-trusted', props=['C05'], edits=[(OP,
   "                if spl[1] in (b'TRUST_MARGINAL',",
   "                if spl[1] in (b'TRUST_UNDEFINED', b'TRUST_MARGINAL',")]),
 dict(id='c05-no-expkeysig', props=['C05'], edits=[(OP,
   "            elif line.startswith(b'[GNUPG:] EXPKEYSIG'):\n                raise OpenPGPExpiredKeyFailure(\n                    err.decode('utf8', errors='backslashreplace'))",
   "            elif line.startswith(b'[GNUPG:] EXPKEYSIG'):\n                is_good = True")]),
 dict(id='c05-good-or-valid', props=['C05'], edits=[(OP,
   "        if not is_good or sig_data is None:",
   "        if not is_good and sig_data is None:")]),
 dict(id='c05-exit-status-ignored', props=['C05'], edits=[(OP,
   "            f.read().encode('utf8'),\n            raise_on_error=OpenPGPVerificationFailure)",
   "            f.read().encode('utf8'),\n            raise_on_error=None)")]),
 dict(id='c05-isolated-home-not-forced', props=['C05'], edits=[(OP,
   "        env_override = {'GNUPGHOME': self.home}",
   "        env_override = {'GNUPGHOME': os.environ.get('GNUPGHOME', self.home)}")]),
 dict(id='c05-signed-before-verify', props=['C05'], edits=[(MF,
   "            assert openpgp_env\n            with io.StringIO(openpgp_data) as f:\n                self.openpgp_signature = openpgp_env.verify_file(f)\n            self.openpgp_signed = True",
   "            assert openpgp_env\n            self.openpgp_signed = True\n            with io.StringIO(openpgp_data) as f:\n                self.openpgp_signature = openpgp_env.verify_file(f)")]),
 dict(id='c05-require-signed-dropped', props=['C05'], edits=[(CL,
   "            if self.require_signed_manifest and not m.openpgp_signed:",
   "            if self.require_signed_manifest and not m.openpgp_signed and False:")]),
 dict(id='c05-revkeysig-ignored', props=['C05'], edits=[(OP,
   "            elif line.startswith(b'[GNUPG:] REVKEYSIG'):\n                raise OpenPGPRevokedKeyFailure(\n                    err.decode('utf8', errors='backslashreplace'))",
   "            elif line.startswith(b'[GNUPG:] REVKEYSIG'):\n                is_good = True")]),
 dict(id='c05-trust-prefix-match', props=['C05'], edits=[(OP,
   "                if spl[1] in (b'TRUST_MARGINAL',\n                              b'TRUST_FULLY',\n                              b'TRUST_ULTIMATE'):",
   "                if spl[1].startswith(b'TRUST_') and spl[1] != b'TRUST_NEVER':")]),
 dict(id='c05-crlf-normalised-before-verify', props=['C05'], edits=[(MF,
   "            elif state == ManifestState.SIGNED_DATA:\n                if verify_openpgp:\n                    openpgp_data += line",
   "            elif state == ManifestState.SIGNED_DATA:\n                if verify_openpgp:\n                    openpgp_data += line.replace('  ', ' ')")]),
]

MUTANTS += [
 # ---- C14
 dict(id='c14-sign-all-manifests', props=['C14'], edits=[(RL,
   "        if relpath == self.top_level_manifest_filename:\n            sign = self.sign_openpgp\n        else:\n            sign = False",
   "        sign = self.sign_openpgp")]),
 dict(id='c14-none-means-false', props=['C14'], edits=[(MF,
   "        if sign_openpgp is None:\n            sign_openpgp = self.openpgp_signed",
   "        if sign_openpgp is None:\n            sign_openpgp = False")]),
 dict(id='c14-sign-error-ignored', props=['C14'], edits=[(OP,
   "            f.read().encode('utf8'),\n            raise_on_error=OpenPGPSigningFailure)",
   "            f.read().encode('utf8'),\n            raise_on_error=None)")]),
 dict(id='c14-local-user-dropped', props=['C14'], edits=[(OP,
   "        if keyid is not None:\n            args += ['--local-user', keyid]",
   "        if keyid is not None:\n            pass")]),
 dict(id='c14-sign-stale-text', props=['C14'], edits=[(MF,
   "                # get the plain data into a stream\n                self.dump(data, sign_openpgp=False)",
   "                # get the plain data into a stream\n                self.dump(data, sign_openpgp=False)\n                data.seek(0)\n                _t = data.read()\n                data.seek(0)\n                data.truncate()\n                data.write(_t.replace('SHA256 0', 'SHA256 1', 1))")]),
 dict(id='c14-signed-when-loaded-unverified', props=['C14'], edits=[(MF,
   "        self.openpgp_signed = False\n        self.openpgp_signature = None\n        state = ManifestState.DATA",
   "        self.openpgp_signed = False\n        self.openpgp_signature = None\n        self._dummy = None\n        state = ManifestState.DATA")]),
 dict(id='c14-fallback-unsigned-on-failure', props=['C14'], edits=[(MF,
   "                openpgp_env.clear_sign_file(data, f, keyid=openpgp_keyid)",
   "                try:\n                    openpgp_env.clear_sign_file(data, f, keyid=openpgp_keyid)\n                except Exception:\n                    data.seek(0)\n                    f.write(data.read())")]),
 dict(id='c14-keyid-dropped-in-loader', props=['C14'], edits=[(RL,
   "                   openpgp_env=self.openpgp_env,\n                   openpgp_keyid=self.openpgp_keyid)",
   "                   openpgp_env=self.openpgp_env,\n                   openpgp_keyid=None)")]),
]
MUTANTS = [m for m in MUTANTS if m['id'] != 'c14-signed-when-loaded-unverified']

MUTANTS += [
 # ---- C19
 dict(id='c19-licenses-dropped', props=['C19'], edits=[(PF,
   "            if relpath in ('eclass', 'licenses', 'metadata',\n                           'profiles'):",
   "            if relpath in ('eclass', 'metadata',\n                           'profiles'):")]),
 dict(id='c19-md5cache-depth', props=['C19'], edits=[(PF,
   "        elif len(spl) == 3:\n            # metadata cache -> per-directory Manifests\n            if spl[0:2] == ['metadata', 'md5-cache']:",
   "        elif len(spl) == 2:\n            # metadata cache -> per-directory Manifests\n            if spl[0:2] == ['metadata', 'md5-cache']:")]),
 dict(id='c19-watermark-4096', props=['C19'], edits=[(PF,
   "            loader.compress_watermark = 128", "            loader.compress_watermark = 4096")]),
 dict(id='c19-old-ebuild-compresses-packages', props=['C19'], edits=[(PF,
   "            if e.tag == 'EBUILD':\n                return False",
   "            if e.tag == 'EBUILD':\n                break")]),
 dict(id='c19-sort-default-off', props=['C19'], edits=[(PF,
   "        if loader.sort is None:\n            loader.sort = True",
   "        if loader.sort is None:\n            loader.sort = False")]),
 dict(id='c19-misc-as-data', props=['C19'], edits=[(PF,
   "            elif spl[2] == 'metadata.xml':\n                return 'MISC'",
   "            elif spl[2] == 'metadata.xml':\n                return 'DATA'")]),
 dict(id='c19-ignore-timestamp-x-dropped', props=['C19'], edits=[(PF,
   "            return ('timestamp', 'timestamp.chk', 'timestamp.commit',\n                    'timestamp.x')",
   "            return ('timestamp', 'timestamp.chk', 'timestamp.commit')")]),
 dict(id='c19-default-hashes', props=['C19'], edits=[(PF,
   "            loader.hashes = ['BLAKE2B', 'SHA512']",
   "            loader.hashes = ['SHA256', 'SHA512']")]),
 dict(id='c19-aux-nested-only-first-level', props=['C19'], edits=[(PF,
   "        if spl[2:3] == ['files']:\n            return 'AUX'",
   "        if spl[2:3] == ['files'] and len(spl) == 4:\n            return 'AUX'")]),
 dict(id='c19-ebuild-anywhere-means-package', props=['C19'], edits=[(PF,
   "        elif len(spl) == 2:\n            # 'slow' way of detecting package directories\n            if any(f.endswith('.ebuild') for f in filenames):\n                return True",
   "        elif len(spl) == 2:\n            # 'slow' way of detecting package directories\n            if any(f.endswith('.ebuild') for f in filenames) and spl[0] != 'virtual':\n                return True")]),
]

GF = 'utils/gen_fast_manifest.py'
GM = 'utils/gen_fast_metamanifest.py'
MUTANTS += [
 # ---- C20
 dict(id='c20-dotfiles-listed', props=['C20'], edits=[(GF,
   "            if f.startswith('Manifest') or f.startswith('.'):\n                continue",
   "            if f.startswith('Manifest'):\n                continue")]),
 dict(id='c20-aux-prefix-slice', props=['C20'], edits=[(GF,
   "                    ep = ep[6:]", "                    ep = ep[5:]")]),
 dict(id='c20-old-manifest-kept', props=['C20'], edits=[(GF,
   "        if had_manifest:\n            os.unlink(os.path.join(top_dir, 'Manifest'))",
   "        pass")]),
 dict(id='c20-split-entry-before-rename', props=['C20'], edits=[(GM,
   "            os.rename(src, dstsplit)\n\n            me = gen_fast_manifest.get_manifest_entry('MANIFEST',\n                    dstsplit, 'Manifest.files' + suffix)",
   "            me = gen_fast_manifest.get_manifest_entry('MANIFEST',\n                    src, 'Manifest.files' + suffix)\n            os.rename(src, dstsplit)\n")]),
 dict(id='c20-sorting-removed', props=['C20'], edits=[(GF,
   "    manifest_entries.sort()\n", "    pass\n")]),
 dict(id='c20-size-chars-not-bytes', props=['C20'], edits=[(GF,
   "        size = len(buf)", "        size = len(buf.decode('utf8', 'replace').rstrip('\\n')) + buf.count(b'\\n', -1)")]),
 dict(id='c20-timestamp-skipped-in-compat', props=['C20'], edits=[(GF,
   "            else:\n                if f in ('timestamp', 'timestamp.chk', 'timestamp.commit',\n                        'timestamp.x'):\n                    continue",
   "            else:\n                if f in ('timestamp', 'timestamp.chk', 'timestamp.commit',\n                        'timestamp.x', 'layout.conf'):\n                    continue")]),
 dict(id='c20-same-dir-order-regression', props=['C20'], edits=[(RL,
   "                                       levels.get(kdv[0], 0)),",
   "                                       0),")]),
 dict(id='c20-md5cache-batch-order', props=['C20'], edits=[(GM,
   "    elif iter_n == 2:\n        # md5-cache depends on cache dirs from iter 1\n        yield 'metadata/md5-cache'\n    elif iter_n == 3:\n        # remaining top-level dir\n        yield 'metadata'",
   "    elif iter_n == 3:\n        # md5-cache depends on cache dirs from iter 1\n        yield 'metadata/md5-cache'\n        # remaining top-level dir\n        yield 'metadata'")]),
]

MUTANTS = [m for m in MUTANTS if m['id'] not in (
    'c20-split-entry-before-rename', 'c20-sorting-removed')]

EX = 'gemato/exceptions.py'
MUTANTS += [
 # ---- C18
 dict(id='c18-main-catches-less', props=['C18'], edits=[(CL,
   "    except GematoException as e:\n        logging.error(e)\n        return 1",
   "    except ManifestMismatch as e:\n        logging.error(e)\n        return 1"),
   (CL, "from gemato.exceptions import GematoException",
        "from gemato.exceptions import GematoException, ManifestMismatch")]),
 dict(id='c18-invalid-path-assert', props=['C18'], edits=[(VF,
   "        if not stat.S_ISREG(ifmt):\n            raise ManifestInvalidPath(path, ('__type__', ftype))",
   "        assert stat.S_ISREG(ifmt), ftype")]),
 dict(id='c18-unknown-hash-keyerror', props=['C18'], edits=[(MF,
   "        try:\n            yield MANIFEST_HASH_MAPPING[h]\n        except KeyError:\n            raise UnsupportedHash(h)",
   "        yield MANIFEST_HASH_MAPPING[h]")]),
 dict(id='c18-silent-exit-1', props=['C18'], edits=[(CL,
   "    except GematoException as e:\n        logging.error(e)\n        return 1",
   "    except GematoException as e:\n        return 1")]),
 dict(id='c18-unsupported-compression-valueerror', props=['C18'], edits=[('gemato/compression.py',
   "    raise UnsupportedCompression(suffix)",
   "    raise ValueError(suffix)")]),
 dict(id='c18-missing-entry-attr', props=['C18'], edits=[(RL,
   "                if de.tag == 'IGNORE':\n                    skip_dirs.append(d)\n                else:",
   "                if de.tag == 'IGNORE':\n                    skip_dirs.append(d)\n                elif de.size >= 0:")]),
 dict(id='c18-stat-result-index', props=['C18'], edits=[(RL,
   "        except FileNotFoundError:\n            if not allow_create:\n                raise",
   "        except FileNotFoundError:\n            if not allow_create:\n                raise RuntimeError('no Manifest')")]),
]

MUTANTS = [m for m in MUTANTS if m['id'] not in (
    'c18-unsupported-compression-valueerror', 'c18-missing-entry-attr',
    'c18-stat-result-index')]
MUTANTS += [
 dict(id='c18-dir-entry-assert', props=['C18'], edits=[(RL,
   "                    # trigger the exception indirectly\n                    update_entry_for_path(os.path.join(dirpath, d),\n                                          de,\n                                          hashes=hashes,\n                                          expected_dev=self.manifest_device)\n                    assert False",
   "                    assert False")]),
 dict(id='c18-compat-check-typeerror', props=['C18'], edits=[(VF,
   "    if e1.size != e2.size:\n        return (False, [('__size__', e1.size, e2.size)])",
   "    if e1.size - e2.size:\n        return (False, [('__size__', e1.size, e2.size)])"),
   (MF, "            size = int(data[2])\n            if size < 0:",
        "            size = int(data[2]) if data[2] != '007' else data[2]\n            if int(size) < 0:")]),
]

# --- maintenance after the fix: commits in /repo
MUTANTS = [m for m in MUTANTS if m['id'] not in (
    # equivalent (documented in DESIGN.md section 8)
    'c15-xdev-ignored', 'c16-no-loop-check-update',
    'c16-no-dir-dev-check-update',
    # since ef6986a stack[0] is the top-level Manifest: entries placed there
    # are still in a covering Manifest, i.e. a valid result
    'c03-new-entries-to-stack0',
    'c06-any-oserror-absent', 'c19-aux-nested-only-first-level')]
MUTANTS += [
 dict(id='c06-any-oserror-absent', props=['C06'], edits=[(VF,
   "    except (FileNotFoundError, ValueError):",
   "    except (FileNotFoundError, PermissionError, ValueError):")]),
 dict(id='c19-aux-nested-only-first-level', props=['C19'], edits=[(PF,
   "        if spl[2:3] == ['files'] and len(spl) > 3:",
   "        if spl[2:3] == ['files'] and len(spl) == 4:")]),
 dict(id='c03-new-entries-one-level-up', props=['C03'], edits=[(RL,
   "                mpath, mdirpath, m = manifest_stack[-1]\n                for fe in new_entries:",
   "                mpath, mdirpath, m = manifest_stack[max(0, len(manifest_stack) - 2)]\n                for fe in new_entries:")]),
]

# placing new entries in a Manifest further up is still a covering Manifest
MUTANTS = [m for m in MUTANTS if m['id'] != 'c03-new-entries-one-level-up']
