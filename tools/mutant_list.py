# Hand-made breaking changes used for the sensitivity self-tests (DESIGN 1.8).
# Each edit is (file, old, new); `old` must occur exactly once.
RL = 'gemato/recursiveloader.py'
VF = 'gemato/verify.py'
MF = 'gemato/manifest.py'
UT = 'gemato/util.py'
CL = 'gemato/cli.py'
HS = 'gemato/hash.py'

MUTANTS = [
 # ---- C01
 dict(id='c01-startswith', props=['C01'], edits=[(UT,
   'return prefix == "" or (path + "/").startswith(prefix.rstrip("/") + "/")',
   'return prefix == "" or path.startswith(prefix)')]),
 dict(id='c01-no-missing-dir-pass', props=['C01'], edits=[(RL,
   '                    ret &= verifier._verify_one_file(syspath, fpath, e)',
   '                    pass')]),
 dict(id='c01-mtime-ge', props=['C01'], edits=[(VF,
   'if (last_mtime is not None and st_mtime <= last_mtime\n                and st_size != 0):',
   'if (last_mtime is not None and st_mtime >= last_mtime\n                and st_size != 0):')]),
 dict(id='c01-first-checksum-only', props=['C01'], edits=[(VF,
   '            if got != exp:\n                diff.append((h, exp, got))',
   '            if got != exp:\n                diff.append((h, exp, got))\n            break')]),
 dict(id='c01-dup-merge-loses-first', props=['C01'], edits=[(RL,
   '                                if d2 is None:\n                                    new_checksums[k] = d1',
   '                                if d2 is None:\n                                    pass')]),
 dict(id='c01-cli-ret-assign', props=['C01'], edits=[(CL,
   'ret &= m.assert_directory_verifies(relpath, **self.kwargs)',
   'ret = m.assert_directory_verifies(relpath, **self.kwargs)')]),
 dict(id='c01-skip-size-check', props=['C01'], edits=[(VF,
   "        if st_size != 0 and st_size != e.size:\n            return (False, [('__size__', e.size, st_size)])",
   "        pass")]),
 dict(id='c01-hidden-dir-files-unchecked', props=['C01'], edits=[(RL,
   "        for f, e in dirdict.items():\n            fpath = os.path.join(relpath, f)\n            ret &= self._verify_one_file(os.path.join(dirpath, f),\n                                         fpath, e)",
   "        for f, e in dirdict.items():\n            if f.startswith('.'):\n                continue\n            fpath = os.path.join(relpath, f)\n            ret &= self._verify_one_file(os.path.join(dirpath, f),\n                                         fpath, e)")]),
 dict(id='c01-type-check-dropped', props=['C01'], edits=[(VF,
   "        if not stat.S_ISREG(ifmt):\n            return (False, [('__type__', 'regular file', ftype)])",
   "        if not stat.S_ISREG(ifmt):\n            return (True, [])")]),
 dict(id='c01-incompat-size-ignored', props=['C01'], edits=[(VF,
   "    if e1.size != e2.size:\n        return (False, [('__size__', e1.size, e2.size)])",
   "    pass")]),
]

MUTANTS += [
 # ---- C07
 dict(id='c07-lazy-map', props=['C07'], edits=[(UT,
   'return list(map(func, it))', 'return map(func, it)')]),
 dict(id='c07-trailing-ret-assign', props=['C07'], edits=[(RL,
   '                    ret &= verifier._verify_one_file(syspath, fpath, e)',
   '                    ret = verifier._verify_one_file(syspath, fpath, e)')]),
 dict(id='c07-none-not-true', props=['C07'], edits=[(RL,
   '            if ret is None:\n                ret = True',
   '            pass')]),
 dict(id='c07-dirdict-get-not-pop', props=['C07'], edits=[(RL,
   '            fe = dirdict.pop(f, None)', '            fe = dirdict.get(f, None)')]),
 dict(id='c07-no-trailing-pass', props=['C07'], edits=[(RL,
   '                    ret &= verifier._verify_one_file(syspath, fpath, e)',
   '                    pass')]),
 dict(id='c07-cli-handler-true', props=['C07'], edits=[(CL,
   'def verify_failure(e):\n    logging.error(e)\n    return False',
   'def verify_failure(e):\n    logging.error(e)\n    return None')]),
 dict(id='c07-dir-entries-and', props=['C07'], edits=[(RL,
   '            ret &= self._verify_one_file(os.path.join(dirpath, f),\n                                         fpath, fe)',
   '            ret = ret and self._verify_one_file(os.path.join(dirpath, f),\n                                         fpath, fe)')]),
]

MUTANTS += [
 # ---- C02
 dict(id='c02-verify-default-off', props=['C02'], edits=[(RL,
   'def load_manifests_for_path(self, path, recursive=False, verify=True):',
   'def load_manifests_for_path(self, path, recursive=False, verify=False):')]),
 dict(id='c02-verify-inverted', props=['C02'], edits=[(RL,
   '                        if not verify:\n                            e = None',
   '                        if verify:\n                            e = None')]),
 dict(id='c02-skip-compressed', props=['C02'], edits=[(RL,
   '        if verify_entry is not None:\n            ret, diff = verify_path(path, verify_entry)',
   "        if verify_entry is not None and not relpath.endswith(('.gz', '.xz')):\n            ret, diff = verify_path(path, verify_entry)")]),
 dict(id='c02-ignore-ret', props=['C02'], edits=[(RL,
   '            if not ret:\n                raise ManifestMismatch(relpath, verify_entry, diff)',
   '            if not ret and False:\n                raise ManifestMismatch(relpath, verify_entry, diff)')]),
 dict(id='c02-dist-lookup-unverified', props=['C02'], edits=[(RL,
   "        self.load_manifests_for_path(relpath+'/')\n",
   "        self.load_manifests_for_path(relpath+'/', verify=False)\n")]),
 dict(id='c02-deep-unverified', props=['C02'], edits=[(RL,
   '                        if not verify:\n                            e = None',
   "                        if not verify or mpath.count('/') >= 3:\n                            e = None")]),
 dict(id='c02-size-only', props=['C02'], edits=[(RL,
   '            ret, diff = verify_path(path, verify_entry)\n            if not ret:',
   "            ret, diff = verify_path(path, verify_entry)\n            if not ret and diff[0][0] in ('__size__', '__exists__', '__type__'):")]),
]

MUTANTS += [
 # ---- C03
 dict(id='c03-no-stack-pop', props=['C03'], edits=[(RL,
   "            while not path_starts_with(relpath, manifest_stack[-1][1]):\n                manifest_stack.pop()",
   "            pass")]),
 dict(id='c03-new-entries-to-stack0', props=['C03'], edits=[(RL,
   "                mpath, mdirpath, m = manifest_stack[-1]\n                for fe in new_entries:",
   "                mpath, mdirpath, m = manifest_stack[0]\n                for fe in new_entries:")]),
 dict(id='c03-keep-vanished', props=['C03'], edits=[(RL,
   "            self.loaded_manifests[mpath].entries.remove(fe)\n            self.updated_manifests.add(mpath)",
   "            pass")]),
 dict(id='c03-existing-keep-hashes', props=['C03'], edits=[(RL,
   "                changed = update_entry_for_path(\n                    os.path.join(dirpath, f),\n                    fe,\n                    hashes=hashes,",
   "                changed = update_entry_for_path(\n                    os.path.join(dirpath, f),\n                    fe,\n                    hashes=(hashes if not fe.checksums else None),")]),
 dict(id='c03-save-parents-first', props=['C03'], edits=[(RL,
   "            return sorted(manifests,\n                          key=lambda kdv: len(kdv[1]),\n                          reverse=True)",
   "            return sorted(manifests,\n                          key=lambda kdv: len(kdv[1]),\n                          reverse=False)")]),
 dict(id='c03-same-dir-order-lost', props=['C03'], edits=[(RL,
   "                                       levels.get(kdv[0], 0)),",
   "                                       0),")]),
 dict(id='c03-dedup-keeps-dup-across-manifests', props=['C03'], edits=[(RL,
   "                        # and drop the duplicate\n                        entries_to_remove.append(e)",
   "                        # and drop the duplicate\n                        if mpath == out[fullpath][0]:\n                            entries_to_remove.append(e)")]),
 dict(id='c03-changed-not-queued', props=['C03'], edits=[(RL,
   "                if changed and mpath is not None:\n                    self.updated_manifests.add(mpath)",
   "                if changed and mpath is not None and mpath.count('/') < 2:\n                    self.updated_manifests.add(mpath)")]),
 dict(id='c03-size-from-stat', props=['C03'], edits=[(VF,
   "        if e.size != size or e.checksums != checksums:\n            e.size = size",
   "        if e.size != size or e.checksums != checksums:\n            e.size = e.size if e.size else size")]),
]

CP = 'gemato/compression.py'
MUTANTS += [
 # ---- C12
 dict(id='c12-always-changed', props=['C12'], edits=[(VF,
   "            e.checksums = checksums\n            return True\n        return False",
   "            e.checksums = checksums\n            return True\n        return True")]),
 dict(id='c12-sort-top-only', props=['C12'], edits=[(RL,
   "                unc_size = self.save_manifest(mpath, sort=sort)",
   "                unc_size = self.save_manifest(mpath, sort=(sort and mpath == self.top_level_manifest_filename))")]),
 dict(id='c12-lt-tag-only', props=['C12'], edits=[(MF,
   "        return (self.tag < other.tag\n                or (self.tag == other.tag and self.path < other.path))",
   "        return self.tag < other.tag")]),
 dict(id='c12-gzip-mtime', props=['C12'], edits=[(CP,
   "return gzip.GzipFile(fileobj=f, mode=mode, filename='', mtime=0)",
   "return gzip.GzipFile(fileobj=f, mode=mode, filename='')")]),
 dict(id='c12-force-always', props=['C12'], edits=[(RL,
   "            if force or mpath in self.updated_manifests:\n                unc_size",
   "            if True:\n                unc_size")]),
 dict(id='c12-new-entry-order-leaks', props=['C12'], edits=[(MF,
   "        if sort:\n            self.entries = sorted(self.entries)",
   "        if sort and len(self.entries) < 4:\n            self.entries = sorted(self.entries)")]),
]

PF = 'gemato/profile.py'
MUTANTS += [
 # ---- C13
 dict(id='c13-watermark-gt', props=['C13'], edits=[(PF,
   "return (unc_size >= compress_watermark and relpath != 'Manifest')",
   "return (unc_size > compress_watermark and relpath != 'Manifest')")]),
 dict(id='c13-top-compressed', props=['C13'], edits=[(PF,
   "return (unc_size >= compress_watermark and relpath != 'Manifest')",
   "return (unc_size >= compress_watermark)")]),
 dict(id='c13-no-unlink', props=['C13'], edits=[(RL,
   "                        os.unlink(os.path.join(self.root_directory,\n                                               mpath))",
   "                        pass")]),
 dict(id='c13-renamed-lookup-skipped', props=['C13'], edits=[(RL,
   "                if fullpath in renamed_manifests:\n                    fullpath = renamed_manifests[fullpath]\n                    e.path = os.path.relpath(fullpath, relpath)",
   "                pass")]),
 dict(id='c13-lzma-as-xz', props=['C13'], edits=[(CP,
   "return lzma.LZMAFile(f, format=lzma.FORMAT_ALONE, mode=mode)",
   "return lzma.LZMAFile(f, format=(lzma.FORMAT_ALONE if 'w' in mode else lzma.FORMAT_XZ), mode=mode)")]),
 dict(id='c13-lookup-skips-compressed', props=['C13'], edits=[(RL,
   "                        if curmpath == mpath or mpath in self.loaded_manifests:\n                            continue\n                        mdir = os.path.dirname(mpath)\n                        if not verify:",
   "                        if curmpath == mpath or mpath in self.loaded_manifests:\n                            continue\n                        mdir = os.path.dirname(mpath)\n                        if not recursive and mpath.endswith('.bz2'):\n                            continue\n                        if not verify:")]),
 dict(id='c13-format-ignored-on-recompress', props=['C13'], edits=[(RL,
   "                            new_mpath = mpath + '.' + compress_format",
   "                            new_mpath = mpath + '.gz'")]),
]
