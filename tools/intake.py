#!/venv/bin/python
# Confirm and file the seeded changes a sub-agent left in /tmp/seed-<ID>:
#   tools/intake.py C04            (looks for seed_a.diff/seed_b.diff, demo_*.py, NOTES.md)
import json, os, re, shutil, subprocess, sys, tempfile, xml.etree.ElementTree as ET
pid = sys.argv[1]
rnd = int(sys.argv[2]) if len(sys.argv) > 2 else 1
wt = f'/tmp/seed-{pid}' if rnd == 1 else f'/tmp/seed{rnd}-{pid}'
NAME = {1: {'a': 'a', 'b': 'b'}, 2: {'a': 'c', 'b': 'd'}, 3: {'a': 'e', 'b': 'f'}, 4: {'a': 'g', 'b': 'h'}, 5: {'a': 'i', 'b': 'j'}, 6: {'a': 'k', 'b': 'l'}}[rnd]
base = json.load(open('/root/.vp/BASELINE.json'))
want = set(base['stable_pass'])

def suite(repo):
    out = tempfile.mktemp(suffix='.xml', dir='/dev/shm')
    subprocess.run(['/venv/bin/python', '-m', 'pytest', '-q', '-p', 'no:cacheprovider', '--timeout=900',
                    '--continue-on-collection-errors', '-n', '12', f'--junitxml={out}'], cwd=repo,
                   env=dict(os.environ, PYTHONPATH=repo), stdout=subprocess.DEVNULL, stderr=subprocess.DEVNULL)
    passed = set()
    for tc in ET.parse(out).getroot().iter('testcase'):
        if not any(c.tag in ('failure', 'error', 'skipped') for c in tc):
            passed.add(f"{tc.get('classname')}::{tc.get('name')}")
    os.unlink(out)
    return sorted(want - passed)

def sh(cmd, **kw):
    return subprocess.run(cmd, shell=True, capture_output=True, text=True, **kw)

notes = open(os.path.join(wt, 'NOTES.md')).read() if os.path.exists(os.path.join(wt, 'NOTES.md')) else ''
for v in ('a', 'b'):
    diff = os.path.join(wt, f'seed_{v}.diff'); demo = os.path.join(wt, f'demo_{v}.py')
    if not os.path.exists(diff):
        print(f'{pid}-{v}: no diff'); continue
    sh(f'git -C {wt} checkout -- gemato utils')
    clean = sh(f'PYTHONPATH={wt} /venv/bin/python {demo}', cwd=wt)
    ap = sh(f'git -C {wt} apply {diff}')
    if ap.returncode != 0:
        print(f'{pid}-{v}: diff does not apply: {ap.stderr}'); continue
    broken = sh(f'PYTHONPATH={wt} /venv/bin/python {demo}', cwd=wt)
    regress = suite(wt)
    sh(f'git -C {wt} checkout -- gemato utils')
    ok = clean.returncode == 0 and broken.returncode != 0 and not regress
    print(f'{pid}-{NAME[v]}: demo clean rc={clean.returncode}, with change rc={broken.returncode}, '
          f'stable tests lost: {len(regress)} -> {"CONFIRMED" if ok else "REJECTED"}')
    if not ok:
        print('   ', (clean.stdout + clean.stderr)[-300:], (broken.stdout + broken.stderr)[-300:], regress[:3]); continue
    d = f'/verif/seeded/{pid}-{NAME[v]}'
    os.makedirs(d, exist_ok=True)
    shutil.copy(diff, os.path.join(d, 'patch.diff')); shutil.copy(demo, os.path.join(d, 'demo.py'))
    meta = {'id': f'{pid}-{NAME[v]}', 'property': pid, 'run_checks': [pid],
            'author': 'independent sub-agent (property text + scratch worktree only)',
            'needs': '', 'notes': notes,
            'confirmed': {'demo_on_unchanged_tree': 'exit 0', 'demo_with_change': f'exit {broken.returncode}: ' + (broken.stdout + broken.stderr).strip()[-300:],
                          'test_suite': 'all 1127 stable-pass tests of BASELINE.json still pass with the change (pytest -n 12 in the scratch worktree)'}}
    json.dump(meta, open(os.path.join(d, 'meta.json'), 'w'), indent=1)
